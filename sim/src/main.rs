// xcpsim — deterministic simulation supervisor for xcp.
//   xcpsim run  < job.json   > result.json
//   xcpsim serve             (one job per input line, one result per output line)

mod elf;
mod sandbox;
mod sup;
mod sys;
mod util;

use serde_json::{json, Value};
use std::io::{BufRead, Read, Write};
use std::path::PathBuf;
use sup::*;
use util::*;

fn gs<'a>(v: &'a Value, k: &str) -> Option<&'a str> {
    v.get(k).and_then(|x| x.as_str())
}
fn gu(v: &Value, k: &str) -> Option<u64> {
    v.get(k).and_then(|x| x.as_u64())
}
fn gb(v: &Value, k: &str) -> bool {
    v.get(k).and_then(|x| x.as_bool()).unwrap_or(false)
}

fn run_job(job: &Value) -> Value {
    let t0 = std::time::Instant::now();
    let root = match gs(job, "root") {
        Some(r) => PathBuf::from(r),
        None => return json!({"outcome": {"kind": "harness", "msg": "job has no root"}}),
    };
    if !root.starts_with("/dev/shm") && !root.starts_with("/tmp") {
        return json!({"outcome": {"kind": "harness", "msg": "refusing a sandbox root outside /dev/shm or /tmp"}});
    }
    let setup: Vec<Value> = job.get("setup").and_then(|v| v.as_array()).cloned().unwrap_or_default();
    if let Err(e) = sandbox::build(&root, gb(job, "fresh"), &setup) {
        return json!({"outcome": {"kind": "harness", "msg": format!("sandbox build: {}", e)}});
    }
    let out_dir = PathBuf::from(gs(job, "out_dir").map(|s| s.to_string()).unwrap_or_else(|| format!("{}.out", root.display())));
    let _ = std::fs::create_dir_all(&out_dir);
    let snap = job.get("snap").cloned().unwrap_or(json!({}));
    let want_pre = snap.get("pre").and_then(|v| v.as_bool()).unwrap_or(true);
    let want_post = snap.get("post").and_then(|v| v.as_bool()).unwrap_or(true);
    let content = snap.get("content").and_then(|v| v.as_bool()).unwrap_or(true);
    let mut ids = sandbox::ObjIds::default();
    let pre = if want_pre { sandbox::snapshot(&root, &mut ids, content) } else { Vec::new() };
    if gs(job, "exe").is_none() {
        // setup-only job
        return json!({"outcome": {"kind": "setup"}, "pre": pre});
    }
    let empty = json!({});
    let k = job.get("kernel").unwrap_or(&empty);
    let s = job.get("sched").unwrap_or(&empty);
    let kernel = Kernel {
        max_io: gu(k, "max_io"),
        cfr: gs(k, "cfr").and_then(errno_by_name),
        cfr_after: gu(k, "cfr_after").unwrap_or(0),
        ficlone: gs(k, "ficlone").map(|x| x.to_string()),
        fiemap: gs(k, "fiemap").map(|x| x.to_string()),
        fiemap_split: gu(k, "fiemap_split").unwrap_or(0),
        fiemap_round_eof: gb(k, "fiemap_round_eof"),
        fiemap_past_eof: gu(k, "fiemap_past_eof").unwrap_or(0),
        fiemap_flagbits: gu(k, "fiemap_flagbits").unwrap_or(0),
        fiemap_phys_packed: gb(k, "fiemap_phys_packed"),
        getdents: gs(k, "getdents").unwrap_or("perm").to_string(),
        wake_any: gb(k, "wake_any"),
        time_jump_p: k.get("time_jump_p").and_then(|v| v.as_f64()).unwrap_or(0.0),
    };
    let sched = SchedCfg {
        kind: gs(s, "kind").unwrap_or("random").to_string(),
        d: gu(s, "d").unwrap_or(3),
        est: gu(s, "est").unwrap_or(400),
        starve: s.get("starve").and_then(|v| v.as_array()).map(|a| a.iter().filter_map(|x| x.as_str().map(|y| y.to_string())).collect()).unwrap_or_default(),
        starve_p: s.get("starve_p").and_then(|v| v.as_f64()).unwrap_or(0.02),
        ustep_p: s.get("ustep_p").and_then(|v| v.as_f64()).unwrap_or(0.0),
        ustep_max: gu(s, "ustep_max").unwrap_or(200),
        ustep_main: gb(s, "ustep_main"),
        ustep_aim: gb(s, "ustep_aim"),
        ustep_locks: gu(s, "ustep_locks").unwrap_or(0),
        ustep_after: gu(s, "ustep_after").unwrap_or(24),
        ustep_hold: gu(s, "ustep_hold").unwrap_or(0),
        ustep_budget: gu(s, "ustep_budget").unwrap_or(120),
        list: s.get("list").and_then(|v| v.as_array()).map(|a| a.iter().filter_map(|x| x.as_u64().map(|y| y as usize)).collect()).unwrap_or_default(),
    };
    let faults: Vec<Fault> = job
        .get("faults")
        .and_then(|v| v.as_array())
        .map(|a| {
            a.iter()
                .map(|f| Fault { site: gu(f, "site").unwrap_or(u64::MAX), m_call: gs(f, "call").map(|x| x.to_string()), m_path: gs(f, "path").map(|x| x.to_string()), m_nth: gu(f, "nth").unwrap_or(0), errno: gs(f, "errno").and_then(errno_by_name), clamp: gu(f, "clamp"), fired: None })
                .collect()
        })
        .unwrap_or_default();
    let rootstr = root.to_string_lossy().to_string();
    let argv: Vec<Vec<u8>> = job
        .get("argv")
        .and_then(|v| v.as_array())
        .map(|a| {
            a.iter()
                .map(|x| {
                    let raw = unpct(x.as_str().unwrap_or(""));
                    // $ROOT substitution
                    let s = String::from_utf8_lossy(&raw).to_string();
                    if s.contains("$ROOT") {
                        s.replace("$ROOT", &rootstr).into_bytes()
                    } else {
                        raw
                    }
                })
                .collect()
        })
        .unwrap_or_default();
    let cwd = match gs(job, "cwd") {
        Some(c) if !c.is_empty() => sandbox::join(&root, &unpct(c)),
        _ => root.clone(),
    };
    let mut env = vec![
        ("PATH".to_string(), "/usr/bin:/bin".to_string()),
        ("HOME".to_string(), "/nonexistent".to_string()),
        ("LANG".to_string(), "C".to_string()),
        ("RUST_BACKTRACE".to_string(), "0".to_string()),
    ];
    if let Some(e) = job.get("env").and_then(|v| v.as_object()) {
        for (k, v) in e {
            env.push((k.clone(), v.as_str().unwrap_or("").to_string()));
        }
    }
    let cfg = Cfg {
        root: root.clone(),
        cwd,
        exe: gs(job, "exe").unwrap().to_string(),
        argv,
        umask: gu(job, "umask").unwrap_or(0o022) as u32,
        nofile: gu(job, "nofile").unwrap_or(1024),
        seed: gu(job, "seed").unwrap_or(0),
        sched,
        kernel,
        faults,
        kill_at: gu(job, "kill_at"),
        max_events: gu(job, "max_events").unwrap_or(50_000),
        timeout_s: gu(job, "timeout_s").unwrap_or(30) as u32,
        log: gs(job, "log").unwrap_or("all").to_string(),
        out_dir: out_dir.clone(),
        env,
    };
    let mut sup = Sup::new(cfg);
    sup.ids = ids;
    let outcome = sup.run();
    let post = if want_post { sandbox::snapshot(&root, &mut sup.ids, content) } else { Vec::new() };
    let oc = match outcome {
        Outcome::Exit(c) => json!({"kind": "exit", "code": c}),
        Outcome::Signal(s) => json!({"kind": "signal", "sig": s}),
        Outcome::Killed => json!({"kind": "killed"}),
        Outcome::Deadlock(d) => json!({"kind": "deadlock", "threads": d}),
        Outcome::Budget => json!({"kind": "budget"}),
        Outcome::Spin => json!({"kind": "spin"}),
        Outcome::Harness(m) => json!({"kind": "harness", "msg": m}),
    };
    let rd = |n: &str| -> String {
        let mut s = String::new();
        if let Ok(f) = std::fs::File::open(out_dir.join(n)) {
            let mut b = Vec::new();
            let _ = Read::take(f, if n == "stdout" { 8 << 20 } else { 262144 }).read_to_end(&mut b);
            s = String::from_utf8_lossy(&b).to_string();
        }
        s
    };
    let stderr = rd("stderr");
    let stdout = rd("stdout");
    let mut res = json!({
        "outcome": oc,
        "stats": sup.stats(),
        "stderr": stderr,
        "stdout": stdout,
        "wall_ms": t0.elapsed().as_secs_f64() * 1000.0,
    });
    let m = res.as_object_mut().unwrap();
    if want_pre {
        m.insert("pre".into(), Value::Array(pre));
    }
    if want_post {
        m.insert("post".into(), Value::Array(post));
    }
    m.insert("events".into(), Value::Array(std::mem::take(&mut sup.events)));
    if gb(job, "record_sched") {
        m.insert("sched".into(), json!(sup.sched_rec));
    }
    if gb(job, "unmount") {
        sandbox::unmount_below(&root);
    }
    if gb(job, "cleanup") {
        sandbox::wipe(&root);
        let _ = std::fs::remove_dir_all(&out_dir);
    }
    res
}

fn main() {
    let args: Vec<String> = std::env::args().collect();
    let mode = args.get(1).map(|s| s.as_str()).unwrap_or("run");
    match mode {
        "run" => {
            let mut s = String::new();
            if let Some(p) = args.get(2) {
                s = std::fs::read_to_string(p).expect("read job");
            } else {
                std::io::stdin().read_to_string(&mut s).expect("read stdin");
            }
            let job: Value = serde_json::from_str(&s).expect("job json");
            let r = run_job(&job);
            println!("{}", r);
        }
        "serve" => {
            let stdin = std::io::stdin();
            let stdout = std::io::stdout();
            for line in stdin.lock().lines() {
                let line = match line {
                    Ok(l) => l,
                    Err(_) => break,
                };
                if line.trim().is_empty() {
                    continue;
                }
                let r = match serde_json::from_str::<Value>(&line) {
                    Ok(job) => run_job(&job),
                    Err(e) => json!({"outcome": {"kind": "harness", "msg": format!("bad job json: {}", e)}}),
                };
                let mut o = stdout.lock();
                let _ = writeln!(o, "{}", r);
                let _ = o.flush();
            }
        }
        _ => {
            eprintln!("usage: xcpsim run [job.json] | serve");
            std::process::exit(2);
        }
    }
}
