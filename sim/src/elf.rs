// Minimal ELF64 symbol-table reader: address ranges of the functions that belong to the project under test
// (mangled names naming the crates libxcp, libfs, xcp or the probe), used to aim user-space preemption points.

use std::convert::TryInto;

fn u16le(b: &[u8], o: usize) -> u16 {
    u16::from_le_bytes(b[o..o + 2].try_into().unwrap())
}
fn u32le(b: &[u8], o: usize) -> u32 {
    u32::from_le_bytes(b[o..o + 4].try_into().unwrap())
}
fn u64le(b: &[u8], o: usize) -> u64 {
    u64::from_le_bytes(b[o..o + 8].try_into().unwrap())
}

pub fn project_ranges(path: &str) -> Vec<(u64, u64)> {
    let b = match std::fs::read(path) {
        Ok(b) => b,
        Err(_) => return Vec::new(),
    };
    if b.len() < 64 || &b[0..4] != b"\x7fELF" || b[4] != 2 {
        return Vec::new();
    }
    let shoff = u64le(&b, 0x28) as usize;
    let shentsize = u16le(&b, 0x3a) as usize;
    let shnum = u16le(&b, 0x3c) as usize;
    let mut out = Vec::new();
    for i in 0..shnum {
        let sh = shoff + i * shentsize;
        if sh + 64 > b.len() {
            break;
        }
        if u32le(&b, sh + 4) != 2 {
            continue; // SHT_SYMTAB
        }
        let off = u64le(&b, sh + 0x18) as usize;
        let size = u64le(&b, sh + 0x20) as usize;
        let link = u32le(&b, sh + 0x28) as usize;
        let entsize = u64le(&b, sh + 0x38) as usize;
        let st = shoff + link * shentsize;
        if st + 64 > b.len() || entsize == 0 {
            continue;
        }
        let stroff = u64le(&b, st + 0x18) as usize;
        let strsize = u64le(&b, st + 0x20) as usize;
        let mut p = off;
        while p + entsize <= off + size && p + 24 <= b.len() {
            let name = u32le(&b, p) as usize;
            let info = b[p + 4];
            let value = u64le(&b, p + 8);
            let sz = u64le(&b, p + 16);
            p += entsize;
            if info & 0xf != 2 || sz == 0 || name >= strsize {
                continue; // STT_FUNC only
            }
            let s = stroff + name;
            let e = b[s..].iter().position(|&c| c == 0).map(|n| s + n).unwrap_or(b.len());
            let nm = &b[s..e];
            let has = |pat: &[u8]| nm.windows(pat.len()).any(|w| w == pat);
            if has(b"libxcp") || has(b"libfs") || has(b"xcpprobe") || has(b"3xcp") || has(b"$xcp..") {
                out.push((value, value + sz));
            }
        }
    }
    out.sort();
    out
}
