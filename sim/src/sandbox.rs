// Sandbox construction (from the job's `setup` list) and whole-sandbox snapshots.

use crate::util::*;
use serde_json::{json, Map, Value};
use std::collections::HashMap;
use std::ffi::{CString, OsStr, OsString};
use std::os::unix::ffi::{OsStrExt, OsStringExt};
use std::path::{Path, PathBuf};

pub fn cstr(p: &Path) -> CString {
    CString::new(p.as_os_str().as_bytes()).expect("nul in path")
}

pub fn join(root: &Path, rel: &[u8]) -> PathBuf {
    if rel.is_empty() || rel == b"." {
        return root.to_path_buf();
    }
    root.join(OsStr::from_bytes(rel))
}

/// Deterministic file content: byte at absolute offset `o` of a run with pattern `pat`.
pub fn fill(pat: u64, off: u64, buf: &mut [u8]) {
    let mut o = off;
    let mut i = 0;
    while i < buf.len() {
        let w = mix2(pat, o >> 3) | 0x0101_0101_0101_0101;
        let b = w.to_le_bytes();
        let k = (o & 7) as usize;
        let n = std::cmp::min(8 - k, buf.len() - i);
        buf[i..i + n].copy_from_slice(&b[k..k + n]);
        i += n;
        o += n as u64;
    }
}

fn set_mtime(p: &Path, ns: i64) -> Result<(), String> {
    let ts = [
        libc::timespec { tv_sec: ns.div_euclid(1_000_000_000), tv_nsec: ns.rem_euclid(1_000_000_000) },
        libc::timespec { tv_sec: ns.div_euclid(1_000_000_000), tv_nsec: ns.rem_euclid(1_000_000_000) },
    ];
    let c = cstr(p);
    let r = unsafe { libc::utimensat(libc::AT_FDCWD, c.as_ptr(), ts.as_ptr(), libc::AT_SYMLINK_NOFOLLOW) };
    if r != 0 {
        return Err(format!("utimensat {:?}: {}", p, std::io::Error::last_os_error()));
    }
    Ok(())
}

fn ioerr<T>(what: &str, p: &Path, r: std::io::Result<T>) -> Result<T, String> {
    r.map_err(|e| format!("{} {:?}: {}", what, p, e))
}

fn apply_common(p: &Path, op: &Value, is_link: bool) -> Result<(), String> {
    let c = cstr(p);
    if let Some(x) = op.get("xattrs").and_then(|v| v.as_object()) {
        for (k, v) in x {
            let kc = CString::new(k.as_bytes()).unwrap();
            let val = unhex(v.as_str().unwrap_or(""));
            let r = unsafe { libc::lsetxattr(c.as_ptr(), kc.as_ptr(), val.as_ptr() as *const _, val.len(), 0) };
            if r != 0 {
                return Err(format!("lsetxattr {:?} {}: {}", p, k, std::io::Error::last_os_error()));
            }
        }
    }
    let uid = op.get("uid").and_then(|v| v.as_u64());
    let gid = op.get("gid").and_then(|v| v.as_u64());
    if uid.is_some() || gid.is_some() {
        let r = unsafe {
            libc::lchown(c.as_ptr(), uid.map(|u| u as u32).unwrap_or(u32::MAX), gid.map(|u| u as u32).unwrap_or(u32::MAX))
        };
        if r != 0 {
            return Err(format!("lchown {:?}: {}", p, std::io::Error::last_os_error()));
        }
    }
    if !is_link {
        if let Some(m) = op.get("mode").and_then(|v| v.as_u64()) {
            let r = unsafe { libc::chmod(c.as_ptr(), m as u32) };
            if r != 0 {
                return Err(format!("chmod {:?}: {}", p, std::io::Error::last_os_error()));
            }
        }
    }
    Ok(())
}

/// Lazily unmount every mount point at or below `root` (deepest first).
pub fn unmount_below(root: &Path) {
    let rb = root.as_os_str().as_bytes().to_vec();
    let mounts = std::fs::read("/proc/self/mounts").unwrap_or_default();
    let mut pts: Vec<Vec<u8>> = Vec::new();
    for line in mounts.split(|&b| b == b'\n') {
        let mut it = line.split(|&b| b == b' ');
        let _dev = it.next();
        if let Some(mp) = it.next() {
            // octal escapes (\040 for space) as written by the kernel
            let mut out = Vec::new();
            let mut i = 0;
            while i < mp.len() {
                if mp[i] == b'\\' && i + 3 < mp.len() && mp[i + 1..i + 4].iter().all(|c| c.is_ascii_digit()) {
                    let v = (mp[i + 1] - b'0') as u32 * 64 + (mp[i + 2] - b'0') as u32 * 8 + (mp[i + 3] - b'0') as u32;
                    out.push(v as u8);
                    i += 4;
                } else {
                    out.push(mp[i]);
                    i += 1;
                }
            }
            if out.len() > rb.len() && out.starts_with(&rb) && out[rb.len()] == b'/' {
                pts.push(out);
            }
        }
    }
    pts.sort_by(|a, b| b.len().cmp(&a.len()));
    for p in pts {
        if let Ok(c) = CString::new(p) {
            unsafe { libc::umount2(c.as_ptr(), libc::MNT_DETACH) };
        }
    }
}

fn rm_rf(p: &Path) {
    if let Ok(m) = std::fs::symlink_metadata(p) {
        if m.is_dir() {
            // make sure we can descend
            let c = cstr(p);
            unsafe { libc::chmod(c.as_ptr(), 0o700) };
            if let Ok(rd) = std::fs::read_dir(p) {
                for e in rd.flatten() {
                    rm_rf(&e.path());
                }
            }
            let _ = std::fs::remove_dir(p);
        } else {
            let _ = std::fs::remove_file(p);
        }
    }
}

pub fn wipe(root: &Path) {
    unmount_below(root);
    rm_rf(root);
}

pub fn build(root: &Path, fresh: bool, setup: &[Value]) -> Result<(), String> {
    if fresh {
        unmount_below(root);
        rm_rf(root);
        ioerr("mkdir", root, std::fs::create_dir_all(root))?;
        let c = cstr(root);
        unsafe { libc::chmod(c.as_ptr(), 0o755) };
    }
    let mut times: Vec<(PathBuf, i64)> = Vec::new();
    for (opn, op) in setup.iter().enumerate() {
        let kind = op.get("op").and_then(|v| v.as_str()).unwrap_or("");
        let rel = unpct(op.get("p").and_then(|v| v.as_str()).unwrap_or(""));
        let p = join(root, &rel);
        match kind {
            "dir" => {
                ioerr("mkdir", &p, std::fs::create_dir_all(&p))?;
                apply_common(&p, op, false)?;
            }
            "file" => {
                let len = op.get("len").and_then(|v| v.as_u64()).unwrap_or(0);
                let _ = std::fs::remove_file(&p);
                let f = ioerr("create", &p, std::fs::File::create(&p))?;
                ioerr("set_len", &p, f.set_len(len))?;
                if let Some(runs) = op.get("runs").and_then(|v| v.as_array()) {
                    use std::os::unix::fs::FileExt;
                    for r in runs {
                        let off = r[0].as_u64().unwrap_or(0);
                        let rl = r[1].as_u64().unwrap_or(0);
                        let pat = r[2].as_u64().unwrap_or(0);
                        let mut done = 0u64;
                        let mut buf = vec![0u8; 1 << 16];
                        while done < rl {
                            let n = std::cmp::min(buf.len() as u64, rl - done) as usize;
                            fill(pat, off + done, &mut buf[..n]);
                            ioerr("write", &p, f.write_all_at(&buf[..n], off + done))?;
                            done += n as u64;
                        }
                    }
                }
                if let Some(t) = op.get("text").and_then(|v| v.as_str()) {
                    use std::os::unix::fs::FileExt;
                    ioerr("set_len", &p, f.set_len(t.len() as u64))?;
                    ioerr("write", &p, f.write_all_at(t.as_bytes(), 0))?;
                }
                drop(f);
                apply_common(&p, op, false)?;
            }
            "symlink" => {
                let to_s = op.get("to").and_then(|v| v.as_str()).unwrap_or("");
                let mut to = unpct(to_s);
                if to.starts_with(b"$ROOT") {
                    let mut t = root.as_os_str().as_bytes().to_vec();
                    t.extend_from_slice(&to[5..]);
                    to = t;
                }
                // "if_file": an edit that only applies when an earlier invocation really left a regular file there
                if op.get("if_file").and_then(|v| v.as_bool()).unwrap_or(false) {
                    match std::fs::symlink_metadata(&p) {
                        Ok(m) if m.file_type().is_file() => {}
                        _ => continue,
                    }
                }
                let _ = std::fs::remove_file(&p);
                ioerr("symlink", &p, std::os::unix::fs::symlink(OsString::from_vec(to), &p))?;
                apply_common(&p, op, true)?;
            }
            "hardlink" => {
                let to = join(root, &unpct(op.get("to").and_then(|v| v.as_str()).unwrap_or("")));
                let _ = std::fs::remove_file(&p);
                ioerr("link", &p, std::fs::hard_link(&to, &p))?;
            }
            "node" => {
                let k = op.get("kind").and_then(|v| v.as_str()).unwrap_or("fifo");
                let t = match k {
                    "fifo" => libc::S_IFIFO,
                    "sock" => libc::S_IFSOCK,
                    "chr" => libc::S_IFCHR,
                    "blk" => libc::S_IFBLK,
                    _ => return Err(format!("bad node kind {}", k)),
                };
                let maj = op.get("major").and_then(|v| v.as_u64()).unwrap_or(0) as u32;
                let min = op.get("minor").and_then(|v| v.as_u64()).unwrap_or(0) as u32;
                let dev = libc::makedev(maj, min);
                let c = cstr(&p);
                let _ = std::fs::remove_file(&p);
                let r = unsafe { libc::mknod(c.as_ptr(), t | 0o600, dev) };
                if r != 0 {
                    return Err(format!("mknod {:?}: {}", p, std::io::Error::last_os_error()));
                }
                apply_common(&p, op, false)?;
            }
            "rm" => {
                rm_rf(&p);
            }
            "mount" => {
                // a second file system inside the sandbox (its own st_dev): cross-device behaviour is then the real kernel's
                ioerr("mkdir", &p, std::fs::create_dir_all(&p))?;
                let c = cstr(&p);
                let ty = CString::new("tmpfs").unwrap();
                let opts = CString::new("size=256m,mode=0755").unwrap();
                let r = unsafe { libc::mount(ty.as_ptr(), c.as_ptr(), ty.as_ptr(), 0, opts.as_ptr() as *const libc::c_void) };
                if r != 0 {
                    return Err(format!("mount-unavailable: {:?}: {}", p, std::io::Error::last_os_error()));
                }
                apply_common(&p, op, false)?;
            }
            "chmod" => {
                apply_common(&p, op, false)?;
            }
            other => return Err(format!("unknown setup op {:?}", other)),
        }
        if kind != "rm" && kind != "hardlink" {
            // every entry gets a deterministic mtime (never the wall clock)
            let ns = op.get("mtime").and_then(|v| v.as_i64()).unwrap_or(1_600_000_000_000_000_000 + opn as i64 * 1_000_000_007);
            times.push((p.clone(), ns));
        }
    }
    for (p, ns) in times.iter().rev() {
        set_mtime(p, *ns)?;
    }
    Ok(())
}

/// Logical object ids: (dev, ino) -> small integer in order of first sight.
#[derive(Default)]
pub struct ObjIds {
    map: HashMap<(u64, u64), u64>,
}

impl ObjIds {
    pub fn id(&mut self, dev: u64, ino: u64) -> u64 {
        let n = self.map.len() as u64;
        *self.map.entry((dev, ino)).or_insert(n)
    }
}

fn kind_of(mode: u32) -> &'static str {
    match mode & libc::S_IFMT {
        libc::S_IFREG => "f",
        libc::S_IFDIR => "d",
        libc::S_IFLNK => "l",
        libc::S_IFIFO => "p",
        libc::S_IFSOCK => "s",
        libc::S_IFCHR => "c",
        libc::S_IFBLK => "b",
        _ => "?",
    }
}

pub fn lstat(p: &Path) -> Option<libc::stat> {
    let c = cstr(p);
    let mut st: libc::stat = unsafe { std::mem::zeroed() };
    let r = unsafe { libc::lstat(c.as_ptr(), &mut st) };
    if r == 0 {
        Some(st)
    } else {
        None
    }
}

pub fn stat(p: &Path) -> Option<libc::stat> {
    let c = cstr(p);
    let mut st: libc::stat = unsafe { std::mem::zeroed() };
    let r = unsafe { libc::stat(c.as_ptr(), &mut st) };
    if r == 0 {
        Some(st)
    } else {
        None
    }
}

/// Data segments of an open file via SEEK_DATA / SEEK_HOLE.
pub fn data_map(fd: i32, size: u64) -> Vec<(u64, u64)> {
    let mut v = Vec::new();
    let mut pos: i64 = 0;
    while (pos as u64) < size {
        let d = unsafe { libc::lseek(fd, pos, libc::SEEK_DATA) };
        if d < 0 {
            break;
        }
        let mut h = unsafe { libc::lseek(fd, d, libc::SEEK_HOLE) };
        if h < 0 {
            h = size as i64;
        }
        v.push((d as u64, h as u64));
        pos = h;
        if h <= d {
            break;
        }
    }
    v
}

fn content_hash(fd: i32, size: u64, segs: &[(u64, u64)]) -> (String, u64) {
    // Layout independent: all-zero 4 KiB pages are skipped whether they are holes or not.
    let mut h = Fnv::new();
    let mut nonzero_pages = 0u64;
    let mut buf = vec![0u8; 1 << 16];
    for &(s, e) in segs {
        let mut o = s;
        while o < e {
            let want = std::cmp::min(buf.len() as u64, e - o) as usize;
            let n = unsafe { libc::pread(fd, buf.as_mut_ptr() as *mut _, want, o as i64) };
            if n <= 0 {
                break;
            }
            let n = n as usize;
            let mut i = 0;
            while i < n {
                let pe = std::cmp::min(n, i + 4096 - ((o as usize + i) & 4095));
                let page = &buf[i..pe];
                if page.iter().any(|&b| b != 0) {
                    h.u64(o + i as u64);
                    h.bytes(page);
                    nonzero_pages += 1;
                }
                i = pe;
            }
            o += n as u64;
        }
    }
    h.u64(size);
    (h.hex(), nonzero_pages)
}

fn list_xattrs(p: &Path) -> Map<String, Value> {
    let mut m = Map::new();
    let c = cstr(p);
    let mut buf = vec![0u8; 4096];
    let n = unsafe { libc::llistxattr(c.as_ptr(), buf.as_mut_ptr() as *mut _, buf.len()) };
    if n <= 0 {
        return m;
    }
    let mut names: Vec<Vec<u8>> = buf[..n as usize].split(|&b| b == 0).filter(|s| !s.is_empty()).map(|s| s.to_vec()).collect();
    names.sort();
    for name in names {
        let kc = CString::new(name.clone()).unwrap();
        let mut vb = vec![0u8; 65536];
        let vn = unsafe { libc::lgetxattr(c.as_ptr(), kc.as_ptr(), vb.as_mut_ptr() as *mut _, vb.len()) };
        if vn >= 0 {
            m.insert(String::from_utf8_lossy(&name).to_string(), Value::String(hex(&vb[..vn as usize])));
        }
    }
    m
}

fn snap_entry(root: &Path, rel: &[u8], ids: &mut ObjIds, content: bool, out: &mut Vec<Value>) {
    let p = join(root, rel);
    let st = match lstat(&p) {
        Some(s) => s,
        None => return,
    };
    let k = kind_of(st.st_mode);
    let mut e = Map::new();
    e.insert("p".into(), Value::String(pct(rel)));
    e.insert("k".into(), Value::String(k.into()));
    e.insert("mode".into(), json!(st.st_mode & 0o7777));
    e.insert("uid".into(), json!(st.st_uid));
    e.insert("gid".into(), json!(st.st_gid));
    e.insert("nlink".into(), json!(st.st_nlink));
    e.insert("o".into(), json!(ids.id(st.st_dev, st.st_ino)));
    e.insert("mtime".into(), json!(st.st_mtime as i128 * 1_000_000_000 + st.st_mtime_nsec as i128));
    match k {
        "f" => {
            e.insert("size".into(), json!(st.st_size));
            e.insert("blocks".into(), json!(st.st_blocks));
            if content {
                let c = cstr(&p);
                let mut fd = unsafe { libc::open(c.as_ptr(), libc::O_RDONLY | libc::O_NOATIME | libc::O_CLOEXEC) };
                if fd < 0 {
                    fd = unsafe { libc::open(c.as_ptr(), libc::O_RDONLY | libc::O_CLOEXEC) };
                }
                if fd >= 0 {
                    let segs = data_map(fd, st.st_size as u64);
                    let (h, nz) = content_hash(fd, st.st_size as u64, &segs);
                    unsafe { libc::close(fd) };
                    e.insert("h".into(), Value::String(h));
                    e.insert("nzp".into(), json!(nz));
                    e.insert("segs".into(), Value::Array(segs.iter().map(|&(a, b)| json!([a, b])).collect()));
                }
            }
        }
        "l" => {
            if let Ok(t) = std::fs::read_link(&p) {
                let tb = t.as_os_str().as_bytes();
                let rb = root.as_os_str().as_bytes();
                let s = if tb.starts_with(rb) && (tb.len() == rb.len() || tb[rb.len()] == b'/') {
                    let mut x = b"$ROOT".to_vec();
                    x.extend_from_slice(&tb[rb.len()..]);
                    pct(&x)
                } else {
                    pct(tb)
                };
                e.insert("to".into(), Value::String(s));
            }
        }
        "c" | "b" => {
            e.insert("major".into(), json!(libc::major(st.st_rdev)));
            e.insert("minor".into(), json!(libc::minor(st.st_rdev)));
        }
        _ => {}
    }
    let xa = list_xattrs(&p);
    if !xa.is_empty() {
        e.insert("xattrs".into(), Value::Object(xa));
    }
    out.push(Value::Object(e));
    if k == "d" {
        let mut names: Vec<Vec<u8>> = match std::fs::read_dir(&p) {
            Ok(rd) => rd.flatten().map(|d| d.file_name().as_bytes().to_vec()).collect(),
            Err(_) => Vec::new(),
        };
        names.sort();
        for n in names {
            let mut r = rel.to_vec();
            if !r.is_empty() {
                r.push(b'/');
            }
            r.extend_from_slice(&n);
            snap_entry(root, &r, ids, content, out);
        }
    }
}

pub fn snapshot(root: &Path, ids: &mut ObjIds, content: bool) -> Vec<Value> {
    let mut out = Vec::new();
    let names: Vec<Vec<u8>> = {
        let mut v: Vec<Vec<u8>> = match std::fs::read_dir(root) {
            Ok(rd) => rd.flatten().map(|d| d.file_name().as_bytes().to_vec()).collect(),
            Err(_) => Vec::new(),
        };
        v.sort();
        v
    };
    for n in names {
        snap_entry(root, &n, ids, content, &mut out);
    }
    out
}
