// Small helpers: PRNG, hashing, percent-encoding of byte strings.

#[derive(Clone)]
pub struct Rng {
    s: u64,
}

pub fn splitmix(x: &mut u64) -> u64 {
    *x = x.wrapping_add(0x9E37_79B9_7F4A_7C15);
    let mut z = *x;
    z = (z ^ (z >> 30)).wrapping_mul(0xBF58_476D_1CE4_E5B9);
    z = (z ^ (z >> 27)).wrapping_mul(0x94D0_49BB_1331_11EB);
    z ^ (z >> 31)
}

pub fn mix2(a: u64, b: u64) -> u64 {
    let mut s = a ^ b.wrapping_mul(0xD6E8_FEB8_6659_FD93);
    splitmix(&mut s)
}

impl Rng {
    /// Independent stream for (seed, purpose).
    pub fn new(seed: u64, purpose: &str) -> Rng {
        let mut h = Fnv::new();
        h.bytes(purpose.as_bytes());
        Rng { s: mix2(seed, h.0) }
    }
    pub fn next(&mut self) -> u64 {
        splitmix(&mut self.s)
    }
    pub fn below(&mut self, n: u64) -> u64 {
        if n <= 1 {
            0
        } else {
            self.next() % n
        }
    }
    pub fn f64(&mut self) -> f64 {
        (self.next() >> 11) as f64 / (1u64 << 53) as f64
    }
}

#[derive(Clone, Copy)]
pub struct Fnv(pub u64);

impl Fnv {
    pub fn new() -> Fnv {
        Fnv(0xcbf2_9ce4_8422_2325)
    }
    pub fn bytes(&mut self, b: &[u8]) {
        let mut h = self.0;
        let mut chunks = b.chunks_exact(8);
        for c in &mut chunks {
            let w = u64::from_le_bytes([c[0], c[1], c[2], c[3], c[4], c[5], c[6], c[7]]);
            h = (h ^ w).wrapping_mul(0x0000_0100_0000_01B3);
            h ^= h >> 29;
        }
        for &x in chunks.remainder() {
            h = (h ^ x as u64).wrapping_mul(0x0000_0100_0000_01B3);
        }
        h = (h ^ b.len() as u64).wrapping_mul(0x0000_0100_0000_01B3);
        self.0 = h;
    }
    pub fn u64(&mut self, v: u64) {
        self.0 = (self.0 ^ v).wrapping_mul(0x0000_0100_0000_01B3);
        self.0 ^= self.0 >> 29;
    }
    pub fn hex(&self) -> String {
        format!("{:016x}", self.0)
    }
}

/// Percent-encode arbitrary bytes into a JSON-safe ASCII string.
pub fn pct(b: &[u8]) -> String {
    let mut s = String::with_capacity(b.len());
    for &c in b {
        if c.is_ascii_graphic() && c != b'%' && c != b'"' && c != b'\\' || c == b' ' {
            s.push(c as char);
        } else {
            s.push_str(&format!("%{:02X}", c));
        }
    }
    s
}

pub fn unpct(s: &str) -> Vec<u8> {
    let b = s.as_bytes();
    let mut out = Vec::with_capacity(b.len());
    let mut i = 0;
    while i < b.len() {
        if b[i] == b'%' && i + 3 <= b.len() {
            let h = std::str::from_utf8(&b[i + 1..i + 3]).ok().and_then(|x| u8::from_str_radix(x, 16).ok());
            if let Some(v) = h {
                out.push(v);
                i += 3;
                continue;
            }
        }
        out.push(b[i]);
        i += 1;
    }
    out
}

pub fn hex(b: &[u8]) -> String {
    let mut s = String::with_capacity(b.len() * 2);
    for c in b {
        s.push_str(&format!("{:02x}", c));
    }
    s
}

pub fn unhex(s: &str) -> Vec<u8> {
    let b = s.as_bytes();
    let mut out = Vec::new();
    let mut i = 0;
    while i + 1 < b.len() {
        if let Ok(v) = u8::from_str_radix(std::str::from_utf8(&b[i..i + 2]).unwrap_or("00"), 16) {
            out.push(v);
        }
        i += 2;
    }
    out
}

pub fn errno_by_name(n: &str) -> Option<i32> {
    Some(match n {
        "EPERM" => libc::EPERM,
        "ENOENT" => libc::ENOENT,
        "EINTR" => libc::EINTR,
        "EIO" => libc::EIO,
        "ENXIO" => libc::ENXIO,
        "EBADF" => libc::EBADF,
        "EAGAIN" => libc::EAGAIN,
        "ENOMEM" => libc::ENOMEM,
        "EACCES" => libc::EACCES,
        "EBUSY" => libc::EBUSY,
        "EEXIST" => libc::EEXIST,
        "EXDEV" => libc::EXDEV,
        "ENOTDIR" => libc::ENOTDIR,
        "EISDIR" => libc::EISDIR,
        "EINVAL" => libc::EINVAL,
        "ENFILE" => libc::ENFILE,
        "EMFILE" => libc::EMFILE,
        "ETXTBSY" => libc::ETXTBSY,
        "EFBIG" => libc::EFBIG,
        "ENOSPC" => libc::ENOSPC,
        "EROFS" => libc::EROFS,
        "EMLINK" => libc::EMLINK,
        "ENOSYS" => libc::ENOSYS,
        "ELOOP" => libc::ELOOP,
        "ENOTSUP" | "EOPNOTSUPP" => libc::EOPNOTSUPP,
        "EDQUOT" => libc::EDQUOT,
        "ENODATA" => libc::ENODATA,
        "ENAMETOOLONG" => libc::ENAMETOOLONG,
        "ENOTEMPTY" => libc::ENOTEMPTY,
        _ => return None,
    })
}

pub fn errno_name(e: i32) -> String {
    let names = [
        "EPERM", "ENOENT", "EINTR", "EIO", "ENXIO", "EBADF", "EAGAIN", "ENOMEM", "EACCES", "EBUSY", "EEXIST", "EXDEV",
        "ENOTDIR", "EISDIR", "EINVAL", "ENFILE", "EMFILE", "ETXTBSY", "EFBIG", "ENOSPC", "EROFS", "EMLINK", "ENOSYS",
        "ELOOP", "EOPNOTSUPP", "EDQUOT", "ENODATA", "ENAMETOOLONG", "ENOTEMPTY",
    ];
    for n in names {
        if errno_by_name(n) == Some(e) {
            return n.to_string();
        }
    }
    match e {
        libc::ESRCH => "ESRCH".into(),
        libc::ECHILD => "ECHILD".into(),
        libc::EFAULT => "EFAULT".into(),
        libc::ENOTTY => "ENOTTY".into(),
        libc::ESPIPE => "ESPIPE".into(),
        libc::ERANGE => "ERANGE".into(),
        libc::ETIMEDOUT => "ETIMEDOUT".into(),
        libc::ENODEV => "ENODEV".into(),
        libc::EPIPE => "EPIPE".into(),
        _ => format!("E{}", e),
    }
}
