// The supervisor: runs the unmodified binary under ptrace, one thread at a time.
// Every system call of every thread is a stop; scheduling decisions, futex queues,
// faults, short transfers, kills and the emulated kernel facilities live here.

use crate::sandbox::{self, ObjIds};
use crate::sys::{self, Class, Shape};
use crate::util::*;
use serde_json::{json, Map, Value};
use std::collections::BTreeMap;
use std::ffi::CString;
use std::os::unix::ffi::OsStrExt;
use std::path::{Path, PathBuf};

type Regs = libc::user_regs_struct;

#[derive(Clone, Copy, PartialEq, Debug)]
enum St {
    Ready,
    Blocked(u64),
    BlockedNever,
    Exited,
}

enum Stop {
    Fresh,
    AtEntry(Regs),
    Woken(Regs, i64),
    Running, // transient
}

struct Th {
    tid: i32,
    lid: usize,
    st: St,
    stop: Stop,
    ctid: u64,
    has_timeout: bool,
    deadline_ns: u64,
    blocked_seq: u64,
    role: &'static str,
    prio: i64,
    pending_sig: i32,
    hold: u64,
    upark: bool,
    spun: bool,
    no_step: bool,
}

#[derive(Clone)]
struct FdInfo {
    path: String, // pct-encoded; sandbox-relative if sb
    sb: bool,
    obj: i64,
    kind: char,
}

pub struct Kernel {
    pub max_io: Option<u64>,
    pub cfr: Option<i32>,
    pub cfr_after: u64,
    pub ficlone: Option<String>,
    pub fiemap: Option<String>,
    pub fiemap_split: u64,
    pub fiemap_round_eof: bool,
    pub fiemap_past_eof: u64,
    pub fiemap_flagbits: u64,
    pub fiemap_phys_packed: bool,
    pub getdents: String,
    pub wake_any: bool,
    // probability per scheduling decision that simulated time jumps to the earliest timed wait's deadline although other threads
    // could run ("everybody else was descheduled for that long"); 0 = time only jumps when nothing else can run
    pub time_jump_p: f64,
}

pub struct Fault {
    pub site: u64,
    // alternative addressing that survives unrelated changes of the call sequence:
    // the nth call named `m_call` on the object spelled `m_path`
    pub m_call: Option<String>,
    pub m_path: Option<String>,
    pub m_nth: u64,
    pub errno: Option<i32>,
    pub clamp: Option<u64>,
    pub fired: Option<String>,
}

pub struct SchedCfg {
    pub kind: String,
    pub d: u64,
    pub est: u64,
    pub starve: Vec<String>,
    pub starve_p: f64,
    pub list: Vec<usize>,
    // user-space preemption: with probability ustep_p per resumed segment the thread is single-stepped for a seeded
    // number of instructions (< ustep_max) and parked there, between two system calls
    pub ustep_p: f64,
    pub ustep_max: u64,
    pub ustep_main: bool,
    // aim: count only instructions inside the project's own functions (symbol table), so that the parking position falls
    // into libxcp / libfs / xcp code rather than into libc or std
    pub ustep_aim: bool,
    // atomic-instruction mode (the scheduling points loom/shuttle use): step to the n-th LOCK-prefixed / xchg instruction of the
    // segment (n <= ustep_locks), then a seeded number (< ustep_after) of further instructions, and park there
    pub ustep_locks: u64,
    pub ustep_after: u64,
    // a thread parked in user space is not eligible for a seeded number (<= ustep_hold) of the following decisions
    pub ustep_hold: u64,
    // number of preemption attempts per run (cost bound, counted in decisions so that it cannot depend on instruction counts)
    pub ustep_budget: u64,
}

pub struct Cfg {
    pub root: PathBuf,
    pub cwd: PathBuf,
    pub exe: String,
    pub argv: Vec<Vec<u8>>,
    pub umask: u32,
    pub nofile: u64,
    pub seed: u64,
    pub sched: SchedCfg,
    pub kernel: Kernel,
    pub faults: Vec<Fault>,
    pub kill_at: Option<u64>,
    pub max_events: u64,
    pub timeout_s: u32,
    pub log: String,
    pub out_dir: PathBuf,
    pub env: Vec<(String, String)>,
}

pub enum Outcome {
    Exit(i32),
    Signal(i32),
    Killed,
    Deadlock(String),
    Budget,
    Spin,
    Harness(String),
}

pub struct Sup {
    cfg: Cfg,
    pid: i32,
    ths: Vec<Th>,
    fds: BTreeMap<i32, FdInfo>,
    pub ids: ObjIds,
    pub events: Vec<Value>,
    log_hash: Fnv,
    sig_hash: Fnv,
    seq: u64,
    sites: u64,
    steps: u64,
    blocked_ctr: u64,
    sched_rng: Rng,
    wake_rng: Rng,
    rand_rng: Rng,
    prio_rng: Rng,
    ustep_rng: Rng,
    usteps: u64,
    uattempts: u64,
    proj: Vec<(u64, u64)>,
    proj_loaded: bool,
    force_park: bool,
    force_next: Option<usize>,
    sim_ns: u64,       // simulated CLOCK_MONOTONIC
    real_base_ns: u64, // CLOCK_REALTIME = real_base_ns + sim_ns
    time_rng: Rng,
    vdso_off: bool,
    seg_cpu0: u64,
    pct_points: Vec<u64>,
    pct_low: i64,
    cur: Option<usize>,
    pub sched_rec: Vec<usize>,
    outcome: Option<Outcome>,
    cfr_count: u64,
    getdents_count: u64,
    peak_fds: usize,
    peak_sb_fds: usize,
    fired_kernel: BTreeMap<String, u64>,
    calls_by_name: BTreeMap<String, u64>,
    switches: u64,
    last_lid: usize,
    max_ready: usize,
    explicit_pos: usize,
    match_ctr: BTreeMap<(String, String), u64>,
    events_dropped: u64,
}

const FAKE_PID: u64 = 4242;
static mut ALARMED: bool = false;
// hard per-segment guard and the 100 ms tick used (only in runs with user-space preemption) to notice a thread that
// spin-waits on another thread parked in user space
static mut DEADLINE_NS: u64 = 0;
static mut TICKING: bool = false;
static mut TICK_RETURNS: bool = false;

fn mono_ns() -> u64 {
    let mut ts: libc::timespec = unsafe { std::mem::zeroed() };
    unsafe { libc::clock_gettime(libc::CLOCK_MONOTONIC, &mut ts) };
    ts.tv_sec as u64 * 1_000_000_000 + ts.tv_nsec as u64
}

fn past_deadline() -> bool {
    unsafe { !TICKING || mono_ns() >= DEADLINE_NS }
}

fn thread_cpu_ns(pid: i32, tid: i32) -> u64 {
    // on-CPU time of one thread of the tracee (per-thread CPU clocks of another process are not readable with clock_gettime)
    std::fs::read_to_string(format!("/proc/{}/task/{}/schedstat", pid, tid))
        .ok()
        .and_then(|x| x.split_whitespace().next().and_then(|y| y.parse::<u64>().ok()))
        .unwrap_or(0)
}
extern "C" fn on_alarm(_: i32) {
    unsafe { ALARMED = true };
}

fn ptrace(req: libc::c_uint, tid: i32, addr: u64, data: u64) -> i64 {
    unsafe { libc::ptrace(req, tid, addr as *mut libc::c_void, data as *mut libc::c_void) }
}

enum Ev {
    Exited(i32),
    Signaled(i32),
    Syscall,
    Event(i32),
    Sig(i32),
    Timeout,
}

fn wait_tid(tid: i32) -> Ev {
    loop {
        let mut status: i32 = 0;
        let r = unsafe { libc::waitpid(tid, &mut status, libc::__WALL) };
        if r < 0 {
            let e = std::io::Error::last_os_error().raw_os_error().unwrap_or(0);
            if e == libc::EINTR {
                if unsafe { ALARMED } {
                    if unsafe { TICK_RETURNS } || past_deadline() {
                        return Ev::Timeout;
                    }
                    unsafe { ALARMED = false };
                }
                continue;
            }
            // ECHILD: thread vanished (group exit reaped elsewhere)
            return Ev::Exited(-1);
        }
        if libc::WIFEXITED(status) {
            return Ev::Exited(libc::WEXITSTATUS(status));
        }
        if libc::WIFSIGNALED(status) {
            return Ev::Signaled(libc::WTERMSIG(status));
        }
        if libc::WIFSTOPPED(status) {
            let sig = libc::WSTOPSIG(status);
            let ev = (status >> 16) & 0xff;
            if ev != 0 {
                return Ev::Event(ev);
            }
            if sig == (libc::SIGTRAP | 0x80) {
                return Ev::Syscall;
            }
            return Ev::Sig(sig);
        }
    }
}

fn getregs(tid: i32) -> Regs {
    let mut r: Regs = unsafe { std::mem::zeroed() };
    ptrace(libc::PTRACE_GETREGS, tid, 0, &mut r as *mut _ as u64);
    r
}

fn setregs(tid: i32, r: &Regs) {
    ptrace(libc::PTRACE_SETREGS, tid, 0, r as *const _ as u64);
}

fn args(r: &Regs) -> [u64; 6] {
    [r.rdi, r.rsi, r.rdx, r.r10, r.r8, r.r9]
}

struct CallInfo {
    name: &'static str,
    sb: bool,
    fields: Map<String, Value>,
    // for post-processing
    fd: Option<i32>,
    full_path: Option<PathBuf>,
    io_len_arg: Option<usize>,
    mutating: bool,
}

impl Sup {
    pub fn new(cfg: Cfg) -> Sup {
        let seed = cfg.seed;
        let mut s = Sup {
            pid: 0,
            ths: Vec::new(),
            fds: BTreeMap::new(),
            ids: ObjIds::default(),
            events: Vec::new(),
            log_hash: Fnv::new(),
            sig_hash: Fnv::new(),
            seq: 0,
            sites: 0,
            steps: 0,
            blocked_ctr: 0,
            sched_rng: Rng::new(seed, "sched"),
            wake_rng: Rng::new(seed, "wake"),
            rand_rng: Rng::new(seed, "getrandom"),
            prio_rng: Rng::new(seed, "prio"),
            ustep_rng: Rng::new(seed, "ustep"),
            usteps: 0,
            uattempts: 0,
            proj: Vec::new(),
            proj_loaded: false,
            force_park: false,
            force_next: None,
            sim_ns: 1_000_000_000_000,
            real_base_ns: 0,
            time_rng: Rng::new(seed, "time"),
            vdso_off: false,
            seg_cpu0: 0,
            pct_points: Vec::new(),
            pct_low: -1,
            cur: None,
            sched_rec: Vec::new(),
            outcome: None,
            cfr_count: 0,
            getdents_count: 0,
            peak_fds: 0,
            peak_sb_fds: 0,
            fired_kernel: BTreeMap::new(),
            calls_by_name: BTreeMap::new(),
            switches: 0,
            last_lid: 0,
            max_ready: 0,
            explicit_pos: 0,
            match_ctr: BTreeMap::new(),
            events_dropped: 0,
            cfg,
        };
        if s.cfg.sched.kind == "pct" {
            let mut r = Rng::new(seed, "pct-points");
            for _ in 0..s.cfg.sched.d {
                let p = r.below(std::cmp::max(1, s.cfg.sched.est));
                s.pct_points.push(p);
            }
        }
        s
    }

    // ---------------------------------------------------------------- memory

    fn read_mem(&self, addr: u64, len: usize) -> Vec<u8> {
        let mut buf = vec![0u8; len];
        let mut done = 0usize;
        while done < len {
            let a = addr + done as u64;
            let chunk = std::cmp::min(len - done, 4096 - (a as usize & 4095));
            let local = libc::iovec { iov_base: buf[done..].as_mut_ptr() as *mut _, iov_len: chunk };
            let remote = libc::iovec { iov_base: a as *mut _, iov_len: chunk };
            let n = unsafe { libc::process_vm_readv(self.pid, &local, 1, &remote, 1, 0) };
            if n <= 0 {
                break;
            }
            done += n as usize;
        }
        buf.truncate(done);
        buf
    }

    fn write_mem(&self, addr: u64, data: &[u8]) -> bool {
        let mut done = 0usize;
        while done < data.len() {
            let a = addr + done as u64;
            let chunk = std::cmp::min(data.len() - done, 4096 - (a as usize & 4095));
            let local = libc::iovec { iov_base: data[done..].as_ptr() as *mut _, iov_len: chunk };
            let remote = libc::iovec { iov_base: a as *mut _, iov_len: chunk };
            let n = unsafe { libc::process_vm_writev(self.pid, &local, 1, &remote, 1, 0) };
            if n <= 0 {
                return false;
            }
            done += n as usize;
        }
        true
    }

    fn read_cstr(&self, addr: u64) -> Vec<u8> {
        let mut out = Vec::new();
        if addr == 0 {
            return out;
        }
        let mut a = addr;
        loop {
            let chunk = 4096 - (a as usize & 4095);
            let b = self.read_mem(a, chunk);
            if b.is_empty() {
                break;
            }
            if let Some(z) = b.iter().position(|&c| c == 0) {
                out.extend_from_slice(&b[..z]);
                break;
            }
            out.extend_from_slice(&b);
            a += b.len() as u64;
            if out.len() > 8192 {
                break;
            }
        }
        out
    }

    fn read_u64(&self, addr: u64) -> Option<u64> {
        let b = self.read_mem(addr, 8);
        if b.len() == 8 {
            Some(u64::from_le_bytes([b[0], b[1], b[2], b[3], b[4], b[5], b[6], b[7]]))
        } else {
            None
        }
    }

    fn read_u32(&self, addr: u64) -> Option<u32> {
        let b = self.read_mem(addr, 4);
        if b.len() == 4 {
            Some(u32::from_le_bytes([b[0], b[1], b[2], b[3]]))
        } else {
            None
        }
    }

    // ---------------------------------------------------------------- launch

    fn launch(&mut self) -> Result<(), String> {
        unsafe {
            ALARMED = false;
            let mut sa: libc::sigaction = std::mem::zeroed();
            sa.sa_sigaction = on_alarm as *const () as usize;
            sa.sa_flags = 0;
            libc::sigaction(libc::SIGALRM, &sa, std::ptr::null_mut());
            libc::alarm(self.cfg.timeout_s);
        }
        let exe = CString::new(self.cfg.exe.clone()).unwrap();
        let argv_c: Vec<CString> = self.cfg.argv.iter().map(|a| CString::new(a.clone()).unwrap()).collect();
        let mut argv_p: Vec<*const libc::c_char> = argv_c.iter().map(|c| c.as_ptr()).collect();
        argv_p.push(std::ptr::null());
        let env_c: Vec<CString> = self.cfg.env.iter().map(|(k, v)| CString::new(format!("{}={}", k, v)).unwrap()).collect();
        let mut env_p: Vec<*const libc::c_char> = env_c.iter().map(|c| c.as_ptr()).collect();
        env_p.push(std::ptr::null());
        let cwd = sandbox::cstr(&self.cfg.cwd);
        let out = sandbox::cstr(&self.cfg.out_dir.join("stdout"));
        let err = sandbox::cstr(&self.cfg.out_dir.join("stderr"));
        let devnull = CString::new("/dev/null").unwrap();
        let pid = unsafe { libc::fork() };
        if pid < 0 {
            return Err("fork failed".into());
        }
        if pid == 0 {
            unsafe {
                libc::ptrace(libc::PTRACE_TRACEME, 0, 0, 0);
                libc::personality(0x0040000);
                let rl = libc::rlimit { rlim_cur: self.cfg.nofile, rlim_max: self.cfg.nofile };
                libc::setrlimit(libc::RLIMIT_NOFILE, &rl);
                let rc = libc::rlimit { rlim_cur: 0, rlim_max: 0 };
                libc::setrlimit(libc::RLIMIT_CORE, &rc);
                libc::umask(self.cfg.umask);
                if libc::chdir(cwd.as_ptr()) != 0 {
                    libc::_exit(126);
                }
                let i = libc::open(devnull.as_ptr(), libc::O_RDONLY);
                libc::dup2(i, 0);
                let o = libc::open(out.as_ptr(), libc::O_WRONLY | libc::O_CREAT | libc::O_TRUNC, 0o644);
                libc::dup2(o, 1);
                let e = libc::open(err.as_ptr(), libc::O_WRONLY | libc::O_CREAT | libc::O_TRUNC, 0o644);
                libc::dup2(e, 2);
                for fd in 3..64 {
                    libc::close(fd);
                }
                libc::raise(libc::SIGSTOP);
                libc::execve(exe.as_ptr(), argv_p.as_ptr(), env_p.as_ptr());
                libc::_exit(127);
            }
        }
        self.pid = pid;
        match wait_tid(pid) {
            Ev::Sig(s) if s == libc::SIGSTOP => {}
            _ => return Err("child did not stop".into()),
        }
        let opts = libc::PTRACE_O_TRACESYSGOOD | libc::PTRACE_O_TRACECLONE | libc::PTRACE_O_TRACEEXEC | libc::PTRACE_O_EXITKILL;
        if ptrace(libc::PTRACE_SETOPTIONS, pid, 0, opts as u64) != 0 {
            return Err("PTRACE_SETOPTIONS failed".into());
        }
        for fd in 0..3 {
            self.fds.insert(fd, FdInfo { path: format!("std{}", fd), sb: false, obj: -1, kind: '-' });
        }
        self.ths.push(Th {
            tid: pid,
            lid: 0,
            st: St::Ready,
            stop: Stop::Fresh,
            ctid: 0,
            has_timeout: false,
            deadline_ns: 0,
            blocked_seq: 0,
            role: "main",
            prio: 0,
            pending_sig: 0,
            hold: 0,
            upark: false,
            spun: false,
            no_step: false,
        });
        let p = self.new_prio();
        self.ths[0].prio = p;
        Ok(())
    }

    fn new_prio(&mut self) -> i64 {
        // PCT: random initial priority above all change-point priorities
        1000 + (self.prio_rng.next() % 1_000_000_000) as i64
    }

    // ---------------------------------------------------------------- scheduler

    fn pick(&mut self, ready: &[usize]) -> usize {
        if ready.len() > self.max_ready {
            self.max_ready = ready.len();
        }
        if ready.len() == 1 {
            return ready[0];
        }
        // only genuine choice points are recorded / consumed, so a recorded list replays under `explicit`
        let i = self.pick_inner(ready);
        if self.sched_rec.len() < 200_000 {
            let lid = self.ths[i].lid;
            self.sched_rec.push(lid);
        }
        i
    }

    fn pick_inner(&mut self, ready: &[usize]) -> usize {
        if let Some(f) = self.force_next.take() {
            if ready.contains(&f) {
                if self.cfg.sched.kind == "explicit" {
                    self.explicit_pos += 1;
                }
                return f;
            }
        }
        // threads parked in user space stay parked for a while (a longer preemption), unless nothing else can run
        let mut cand: Vec<usize> = ready.iter().cloned().filter(|&i| self.ths[i].hold == 0).collect();
        for &i in ready {
            if self.ths[i].hold > 0 {
                self.ths[i].hold -= 1;
            }
        }
        if cand.is_empty() {
            cand = ready.to_vec();
        }
        // starvation filter
        if !self.cfg.sched.starve.is_empty() {
            let unstarved: Vec<usize> =
                cand.iter().cloned().filter(|&i| !self.cfg.sched.starve.iter().any(|r| r == self.ths[i].role)).collect();
            if !unstarved.is_empty() && unstarved.len() < cand.len() {
                if self.sched_rng.f64() >= self.cfg.sched.starve_p {
                    cand = unstarved;
                }
            }
        }
        if cand.len() == 1 {
            return cand[0];
        }
        match self.cfg.sched.kind.as_str() {
            "explicit" => {
                let want = self.cfg.sched.list.get(self.explicit_pos).cloned();
                self.explicit_pos += 1;
                if let Some(w) = want {
                    if let Some(&i) = ready.iter().find(|&&i| self.ths[i].lid == w) {
                        return i;
                    }
                }
                // default: stay on the current thread if ready, else lowest id
                if let Some(c) = self.cur {
                    if ready.contains(&c) {
                        return c;
                    }
                }
                ready[0]
            }
            "rtb" => {
                if let Some(c) = self.cur {
                    if cand.contains(&c) {
                        return c;
                    }
                }
                let k = self.sched_rng.below(cand.len() as u64) as usize;
                cand[k]
            }
            "pct" => {
                if let Some(pos) = self.pct_points.iter().position(|&p| p == self.steps) {
                    self.pct_points.remove(pos);
                    if let Some(c) = self.cur {
                        self.ths[c].prio = self.pct_low;
                        self.pct_low -= 1;
                    }
                }
                let mut best = cand[0];
                for &i in &cand {
                    if self.ths[i].prio > self.ths[best].prio {
                        best = i;
                    }
                }
                best
            }
            _ => {
                let k = self.sched_rng.below(cand.len() as u64) as usize;
                cand[k]
            }
        }
    }

    // ---------------------------------------------------------------- main loop

    pub fn run(&mut self) -> Outcome {
        if let Err(e) = self.launch() {
            return Outcome::Harness(e);
        }
        loop {
            if let Some(o) = self.outcome.take() {
                unsafe { libc::alarm(0) };
                return o;
            }
            let ready: Vec<usize> = (0..self.ths.len()).filter(|&i| self.ths[i].st == St::Ready).collect();
            if ready.is_empty() {
                // a timed wait may expire
                if self.expire_earliest_timer() {
                    self.bump("timer-expiry");
                    continue;
                }
                let desc: Vec<String> = self
                    .ths
                    .iter()
                    .filter(|t| t.st != St::Exited)
                    .map(|t| format!("t{}:{}:{}", t.lid, t.role, match t.st { St::Blocked(_) => "futex", St::BlockedNever => "never", _ => "?" }))
                    .collect();
                self.kill_all();
                unsafe { libc::alarm(0) };
                return Outcome::Deadlock(desc.join(","));
            }
            // simulated time: a little per scheduling decision; timed waits whose deadline has passed expire; and, as a fault, time may
            // jump to the next deadline although other threads could run (they were "descheduled" for that long)
            self.sim_ns += 10_000;
            let due = (0..self.ths.len()).any(|j| matches!(self.ths[j].st, St::Blocked(_)) && self.ths[j].has_timeout && self.ths[j].deadline_ns <= self.sim_ns);
            if due {
                if self.expire_earliest_timer() {
                    self.bump("timer-expiry");
                    continue;
                }
            } else if self.cfg.kernel.time_jump_p > 0.0
                && (0..self.ths.len()).any(|j| matches!(self.ths[j].st, St::Blocked(_)) && self.ths[j].has_timeout)
                && self.time_rng.f64() < self.cfg.kernel.time_jump_p
            {
                if self.expire_earliest_timer() {
                    self.bump("time-jump");
                    continue;
                }
            }
            if self.steps >= self.cfg.max_events {
                self.kill_all();
                unsafe { libc::alarm(0) };
                return Outcome::Budget;
            }
            let i = self.pick(&ready);
            self.steps += 1;
            let lid = self.ths[i].lid;
            if lid != self.last_lid {
                self.switches += 1;
                self.last_lid = lid;
            }
            self.cur = Some(i);
            // wall-clock guard per inter-syscall segment (pure CPU spin); the length of a run is bounded by steps only
            unsafe {
                ALARMED = false;
                TICK_RETURNS = false;
                if self.cfg.sched.ustep_p > 0.0 {
                    TICKING = true;
                    DEADLINE_NS = mono_ns() + self.cfg.timeout_s as u64 * 1_000_000_000;
                    let tv = libc::timeval { tv_sec: 0, tv_usec: 100_000 };
                    let it = libc::itimerval { it_interval: tv, it_value: tv };
                    libc::setitimer(libc::ITIMER_REAL, &it, std::ptr::null_mut());
                } else {
                    TICKING = false;
                    libc::alarm(self.cfg.timeout_s);
                }
            }
            self.ths[i].upark = false;
            self.ths[i].spun = false;
            self.resume(i);
        }
    }

    /// the timed waiter with the earliest deadline times out; the simulated clock moves to that deadline
    fn expire_earliest_timer(&mut self) -> bool {
        let mut timed: Vec<usize> =
            (0..self.ths.len()).filter(|&i| matches!(self.ths[i].st, St::Blocked(_)) && self.ths[i].has_timeout).collect();
        if timed.is_empty() {
            return false;
        }
        timed.sort_by_key(|&i| (self.ths[i].deadline_ns, self.ths[i].blocked_seq));
        let i = timed[0];
        if self.ths[i].deadline_ns > self.sim_ns {
            self.sim_ns = self.ths[i].deadline_ns;
        }
        if let Stop::AtEntry(r) = std::mem::replace(&mut self.ths[i].stop, Stop::Running) {
            self.ths[i].stop = Stop::Woken(r, -(libc::ETIMEDOUT as i64));
        }
        self.ths[i].st = St::Ready;
        self.ths[i].has_timeout = false;
        true
    }

    fn bump(&mut self, k: &str) {
        *self.fired_kernel.entry(k.to_string()).or_insert(0) += 1;
    }

    fn kill_all(&mut self) {
        unsafe { libc::kill(self.pid, libc::SIGKILL) };
        self.reap_group();
    }

    fn reap_group(&mut self) -> Option<i32> {
        // returns raw wait status of the leader if seen
        let mut leader = None;
        loop {
            let mut status = 0;
            let r = unsafe { libc::waitpid(-1, &mut status, libc::__WALL) };
            if r < 0 {
                let e = std::io::Error::last_os_error().raw_os_error().unwrap_or(0);
                if e == libc::EINTR {
                    if unsafe { ALARMED } {
                        unsafe { libc::kill(self.pid, libc::SIGKILL) };
                        unsafe { ALARMED = false };
                    }
                    continue;
                }
                break;
            }
            if libc::WIFSTOPPED(status) {
                // a stop reported during teardown: let it go on
                ptrace(libc::PTRACE_CONT, r, 0, 0);
                continue;
            }
            if r == self.pid {
                leader = Some(status);
            }
        }
        for t in self.ths.iter_mut() {
            t.st = St::Exited;
        }
        leader
    }

    fn group_over(&mut self, leader_status: Option<i32>) {
        let st = match leader_status {
            Some(s) => Some(s),
            None => self.reap_group(),
        };
        // make sure nothing is left
        let _ = self.reap_group_if_any();
        if self.outcome.is_some() {
            return;
        }
        self.outcome = Some(match st {
            Some(s) if libc::WIFEXITED(s) => Outcome::Exit(libc::WEXITSTATUS(s)),
            Some(s) if libc::WIFSIGNALED(s) => Outcome::Signal(libc::WTERMSIG(s)),
            _ => Outcome::Harness("lost leader status".into()),
        });
    }

    fn reap_group_if_any(&mut self) -> Option<i32> {
        self.reap_group()
    }

    fn thread_died(&mut self, i: usize, ev: Ev) {
        // A thread we were running reported exit/kill outside our `exit` handling:
        // the group is going down (fatal signal) or the leader finished.
        let tid = self.ths[i].tid;
        self.ths[i].st = St::Exited;
        if tid == self.pid {
            let _ = self.reap_group();
            self.outcome = Some(match ev {
                Ev::Exited(c) if c >= 0 => Outcome::Exit(c),
                Ev::Signaled(s) => Outcome::Signal(s),
                _ => Outcome::Harness("lost leader status".into()),
            });
        } else {
            self.group_over(None);
        }
    }

    fn spin_check(&mut self, i: usize) {
        let tid = self.ths[i].tid;
        let stat = std::fs::read_to_string(format!("/proc/{}/task/{}/stat", self.pid, tid)).unwrap_or_default();
        let state = stat.rsplit(')').next().unwrap_or("").trim().chars().next().unwrap_or('?');
        if std::env::var("XCPSIM_DEBUG_SPIN").is_ok() {
            eprintln!("spin_check t{} state={} cpu={} cpu0={}", self.ths[i].lid, state, thread_cpu_ns(self.pid, tid), self.seg_cpu0);
        }
        if state != 'R' {
            return;
        }
        let now_cpu = thread_cpu_ns(self.pid, tid);
        if now_cpu == 0 || self.seg_cpu0 == 0 || now_cpu.saturating_sub(self.seg_cpu0) < 250_000_000 {
            return;
        }
        unsafe { libc::syscall(libc::SYS_tgkill, self.pid, tid, libc::SIGSTOP) };
        self.force_park = true;
    }

    fn timeout(&mut self, i: usize) {
        let tid = self.ths[i].tid;
        let stat = std::fs::read_to_string(format!("/proc/{}/task/{}/stat", self.pid, tid)).unwrap_or_default();
        let state = stat.rsplit(')').next().unwrap_or("").trim().chars().next().unwrap_or('?');
        let wchan = std::fs::read_to_string(format!("/proc/{}/task/{}/syscall", self.pid, tid)).unwrap_or_default();
        if state == 'R' && std::env::var("XCPSIM_DEBUG_SPIN").is_ok() {
            // diagnostic: where does the spinning thread execute, and where are the parked ones
            unsafe { libc::kill(tid, 0) };
            unsafe { libc::syscall(libc::SYS_tgkill, self.pid, tid, libc::SIGSTOP) };
            let _ = wait_tid(tid);
            let mut msg = format!("spin: t{} rip={:x}", self.ths[i].lid, getregs(tid).rip);
            for t in self.ths.iter() {
                if t.st != St::Exited && t.tid != tid {
                    msg += &format!(" | t{} {:?} hold={} rip={:x}", t.lid, t.st, t.hold, getregs(t.tid).rip);
                }
            }
            eprintln!("{}", msg);
        }
        self.kill_all();
        if state == 'R' {
            self.outcome = Some(Outcome::Spin);
        } else if state == 't' || state == 'T' {
            // stopped at one of our own stops: the run is merely long; the wall-clock guard acts as a step budget
            self.outcome = Some(Outcome::Budget);
        } else {
            self.outcome = Some(Outcome::Harness(format!(
                "thread t{} asleep in the kernel (state {}) in an unmodelled blocking call: {}",
                self.ths[i].lid,
                state,
                wchan.trim()
            )));
        }
    }

    /// Continue to the syscall-exit stop of the call the thread is currently entering.
    /// Returns false if the thread (or process) went away.
    fn to_exit_stop(&mut self, i: usize) -> bool {
        let tid = self.ths[i].tid;
        loop {
            ptrace(libc::PTRACE_SYSCALL, tid, 0, 0);
            match wait_tid(tid) {
                Ev::Syscall => return true,
                Ev::Event(e) => {
                    if e == libc::PTRACE_EVENT_EXEC {
                        self.disable_vdso(tid);
                    }
                    continue;
                }
                Ev::Sig(s) => {
                    // should not happen between entry and exit; keep the signal for later (SIGSTOP is only ever sent by the
                    // supervisor itself and is never passed on)
                    if s != libc::SIGSTOP {
                        self.ths[i].pending_sig = s;
                    }
                    continue;
                }
                Ev::Timeout => {
                    self.timeout(i);
                    return false;
                }
                ev => {
                    self.thread_died(i, ev);
                    return false;
                }
            }
        }
    }

    /// Skip the call the thread is entering and make it return `ret`.
    fn skip(&mut self, i: usize, regs: &Regs, ret: i64) -> bool {
        let tid = self.ths[i].tid;
        let mut r = *regs;
        r.orig_rax = u64::MAX;
        setregs(tid, &r);
        if !self.to_exit_stop(i) {
            return false;
        }
        let mut r2 = getregs(tid);
        r2.rax = ret as u64;
        setregs(tid, &r2);
        true
    }

    /// Execute the call (optionally with modified registers); returns its result.
    fn exec(&mut self, i: usize, regs: Option<&Regs>) -> Option<i64> {
        let tid = self.ths[i].tid;
        if let Some(r) = regs {
            setregs(tid, r);
        }
        if !self.to_exit_stop(i) {
            return None;
        }
        Some(getregs(tid).rax as i64)
    }

    fn resume(&mut self, i: usize) {
        let stop = std::mem::replace(&mut self.ths[i].stop, Stop::Running);
        match stop {
            Stop::Fresh | Stop::Running => {}
            Stop::Woken(regs, ret) => {
                if !self.skip(i, &regs, ret) {
                    return;
                }
            }
            Stop::AtEntry(regs) => {
                if !self.do_call(i, regs) {
                    return;
                }
            }
        }
        self.run_until_point(i);
    }

    fn load_proj(&mut self) {
        self.proj_loaded = true;
        let mut r = crate::elf::project_ranges(&self.cfg.exe);
        // load bias of the (position-independent) executable: first mapping of the file
        let maps = std::fs::read_to_string(format!("/proc/{}/maps", self.pid)).unwrap_or_default();
        let mut base = 0u64;
        for l in maps.lines() {
            if l.ends_with(&self.cfg.exe) {
                let mut it = l.split_whitespace();
                let range = it.next().unwrap_or("");
                let off = it.nth(1).unwrap_or("");
                if off == "00000000" {
                    base = u64::from_str_radix(range.split('-').next().unwrap_or("0"), 16).unwrap_or(0);
                    break;
                }
            }
        }
        if r.first().map(|x| x.0 >= 0x400000).unwrap_or(false) {
            base = 0; // not position independent
        }
        for x in r.iter_mut() {
            x.0 += base;
            x.1 += base;
        }
        self.proj = r;
    }

    fn in_proj(&self, rip: u64) -> bool {
        let k = self.proj.partition_point(|x| x.0 <= rip);
        k > 0 && rip < self.proj[k - 1].1
    }

    /// Single-step the thread for at most k (counted) instructions, never executing a `syscall` instruction.
    /// With `aim`, only instructions inside the project's own functions are counted and the total is capped.
    /// Some(true): parked in user space (a scheduling point between two system calls);
    /// Some(false): the next instruction is a system call (carry on with the normal syscall stop);
    /// None: the thread or the process went away.
    fn single_step(&mut self, i: usize, k: u64, aim: bool) -> Option<bool> {
        let tid = self.ths[i].tid;
        let mut counted = 0u64;
        let mut total = 0u64;
        let cap = if aim { 6000 } else { k };
        while counted < k && total < cap {
            let rip = ptrace(libc::PTRACE_PEEKUSER, tid, (16 * 8) as u64, 0) as u64; // offsetof(user_regs_struct, rip)
            let word = ptrace(libc::PTRACE_PEEKTEXT, tid, rip, 0) as u64;
            if word & 0xffff == 0x050f {
                return Some(false);
            }
            let sig = std::mem::replace(&mut self.ths[i].pending_sig, 0);
            ptrace(libc::PTRACE_SINGLESTEP, tid, 0, sig as u64);
            self.usteps += 1;
            match wait_tid(tid) {
                Ev::Sig(s) => {
                    if s != libc::SIGTRAP {
                        // a signal stop, not the trap of an executed instruction: nothing was stepped
                        if s != libc::SIGSTOP {
                            self.ths[i].pending_sig = s;
                        }
                        continue;
                    }
                    if !aim || self.in_proj(rip) {
                        counted += 1;
                    }
                    total += 1;
                }
                Ev::Syscall | Ev::Event(_) => {}
                Ev::Timeout => {
                    self.timeout(i);
                    return None;
                }
                ev => {
                    self.thread_died(i, ev);
                    return None;
                }
            }
        }
        if aim && counted < k {
            // never reached (enough of) the project's code before the cap: parking here is still a legal preemption
            self.bump("ustep-aim-missed");
        }
        Some(true)
    }

    /// The initial stack of the new image holds the auxiliary vector; retyping AT_SYSINFO_EHDR to AT_IGNORE makes the C library
    /// find no vDSO, so that every time query is a system call the supervisor answers from the simulated clock.
    fn disable_vdso(&mut self, tid: i32) {
        let regs = getregs(tid);
        let mut p = regs.rsp;
        let argc = self.read_u64(p).unwrap_or(0);
        p += 8 * (argc + 2); // argc, argv[0..argc], NULL
        for _ in 0..4096 {
            match self.read_u64(p) {
                Some(0) => {
                    p += 8;
                    break;
                }
                Some(_) => p += 8,
                None => return,
            }
        }
        for _ in 0..64 {
            let k = match self.read_u64(p) {
                Some(k) => k,
                None => return,
            };
            if k == 0 {
                break;
            }
            if k == 25 {
                // AT_RANDOM: 16 kernel-chosen bytes (stack protector, pointer guard): take them from the seed as well
                if let Some(addr) = self.read_u64(p + 8) {
                    let mut b = [0u8; 16];
                    for x in b.iter_mut() {
                        *x = (self.rand_rng.next() & 0xff) as u8;
                    }
                    self.write_mem(addr, &b);
                }
            }
            if k == 33 {
                // AT_SYSINFO_EHDR -> AT_IGNORE
                if self.write_mem(p, &1u64.to_le_bytes()) {
                    self.vdso_off = true;
                }
            }
            p += 16;
        }
        let mut ts: libc::timespec = unsafe { std::mem::zeroed() };
        unsafe { libc::clock_gettime(libc::CLOCK_REALTIME, &mut ts) };
        self.real_base_ns = (ts.tv_sec as u64 * 1_000_000_000 + ts.tv_nsec as u64).saturating_sub(self.sim_ns);
    }

    fn clock_now(&mut self, clk: u64) -> u64 {
        // every query moves time on a little, so that a loop polling the clock makes progress
        self.sim_ns += 1_000;
        match clk {
            0 | 5 | 8 | 11 => self.real_base_ns + self.sim_ns, // REALTIME, REALTIME_COARSE, REALTIME_ALARM, TAI
            _ => self.sim_ns,                                    // MONOTONIC, BOOTTIME, CPU clocks ...
        }
    }

    /// clock_gettime / gettimeofday / time answered from the simulated clock; returns false if the thread went away
    fn do_clock(&mut self, i: usize, regs: &Regs, name: &str) -> bool {
        let a = args(regs);
        let mut ret: i64 = 0;
        match name {
            "clock_gettime" => {
                let t = self.clock_now(a[0]);
                let mut b = Vec::with_capacity(16);
                b.extend_from_slice(&((t / 1_000_000_000) as i64).to_le_bytes());
                b.extend_from_slice(&((t % 1_000_000_000) as i64).to_le_bytes());
                if !self.write_mem(a[1], &b) {
                    ret = -(libc::EFAULT as i64);
                }
            }
            "gettimeofday" => {
                let t = self.clock_now(0);
                if a[0] != 0 {
                    let mut b = Vec::with_capacity(16);
                    b.extend_from_slice(&((t / 1_000_000_000) as i64).to_le_bytes());
                    b.extend_from_slice(&(((t % 1_000_000_000) / 1000) as i64).to_le_bytes());
                    if !self.write_mem(a[0], &b) {
                        ret = -(libc::EFAULT as i64);
                    }
                }
            }
            _ => {
                let t = self.clock_now(0) / 1_000_000_000;
                if a[0] != 0 {
                    self.write_mem(a[0], &(t as i64).to_le_bytes());
                }
                ret = t as i64;
            }
        }
        self.bump("clock-query");
        self.skip(i, regs, ret)
    }

    fn is_atomic_insn(word: u64) -> bool {
        // LOCK prefix (possibly after one legacy prefix), or xchg r, m (implicitly locked)
        let b = word.to_le_bytes();
        let legacy = |x: u8| matches!(x, 0x66 | 0x67 | 0x2e | 0x36 | 0x3e | 0x26 | 0x64 | 0x65);
        if b[0] == 0xf0 || (legacy(b[0]) && b[1] == 0xf0) {
            return true;
        }
        let mut k = 0;
        if legacy(b[k]) {
            k += 1;
        }
        if b[k] & 0xf0 == 0x40 {
            k += 1;
        }
        (b[k] == 0x86 || b[k] == 0x87) && (b[k + 1] >> 6) != 3
    }

    /// Step to the n-th atomic instruction of this segment (executing it), then `after` more instructions, and park.
    fn step_to_atomic(&mut self, i: usize, n: u64, after: u64, cap: u64, before: bool) -> Option<bool> {
        let tid = self.ths[i].tid;
        let mut seen = 0u64;
        let mut left = after;
        let mut total = 0u64;
        loop {
            if total >= cap {
                self.bump("ustep-no-atomic");
                return Some(true);
            }
            let rip = ptrace(libc::PTRACE_PEEKUSER, tid, (16 * 8) as u64, 0) as u64;
            let word = ptrace(libc::PTRACE_PEEKTEXT, tid, rip, 0) as u64;
            if word & 0xffff == 0x050f {
                return Some(false);
            }
            let atomic = Self::is_atomic_insn(word);
            if seen >= n {
                if left == 0 {
                    return Some(true);
                }
            } else if atomic && before && seen + 1 >= n && total > 0 {
                // park with the n-th atomic instruction still to be executed: whatever the thread has read so far (a count, a
                // flag) can go stale before its read-modify-write happens - the switch point loom puts before every atomic
                return Some(true);
            }
            let sig = std::mem::replace(&mut self.ths[i].pending_sig, 0);
            ptrace(libc::PTRACE_SINGLESTEP, tid, 0, sig as u64);
            self.usteps += 1;
            match wait_tid(tid) {
                Ev::Sig(s) => {
                    if s != libc::SIGTRAP {
                        // a signal stop, not the trap of an executed instruction: nothing was stepped, nothing is counted
                        if s != libc::SIGSTOP {
                            self.ths[i].pending_sig = s;
                        }
                        continue;
                    }
                    if seen >= n {
                        left -= 1;
                    } else if atomic {
                        seen += 1;
                    }
                    total += 1;
                }
                Ev::Syscall | Ev::Event(_) => {}
                Ev::Timeout => {
                    self.timeout(i);
                    return None;
                }
                ev => {
                    self.thread_died(i, ev);
                    return None;
                }
            }
        }
    }

    fn run_until_point(&mut self, i: usize) {
        let tid = self.ths[i].tid;
        // a thread that was stopped at an arbitrary point of a busy-wait loop is not single-stepped until its next system call:
        // instruction counts from a timing-dependent position would not replay
        let skip_step = std::mem::replace(&mut self.ths[i].no_step, false);
        loop {
            if !skip_step && self.cfg.sched.ustep_p > 0.0 && self.uattempts < self.cfg.sched.ustep_budget && (self.cfg.sched.ustep_main || self.ths[i].lid != 0) && self.ths.len() > 2 {
                if self.ustep_rng.f64() < self.cfg.sched.ustep_p {
                    self.uattempts += 1;
                    // log-uniform instruction count: windows right after a call and far from it are both reached
                    let bits = 1 + self.ustep_rng.below(64 - (self.cfg.sched.ustep_max.max(2) - 1).leading_zeros() as u64);
                    let k = 1 + self.ustep_rng.below(1u64 << bits).min(self.cfg.sched.ustep_max);
                    let aim = self.cfg.sched.ustep_aim;
                    if aim && !self.proj_loaded {
                        self.load_proj();
                    }
                    let aim = aim && !self.proj.is_empty();
                    let r = if self.cfg.sched.ustep_locks > 0 {
                        let n = 1 + self.ustep_rng.below(self.cfg.sched.ustep_locks);
                        let after = self.ustep_rng.below(self.cfg.sched.ustep_after.max(1));
                        let before = self.ustep_rng.below(2) == 0;
                        self.step_to_atomic(i, n, after, self.cfg.sched.ustep_max.max(200), before)
                    } else {
                        self.single_step(i, k, aim)
                    };
                    match r {
                        None => return,
                        Some(true) => {
                            if self.cfg.sched.ustep_hold > 0 {
                                self.ths[i].hold = 1 + self.ustep_rng.below(self.cfg.sched.ustep_hold);
                            }
                            self.ths[i].upark = true;
                            self.ths[i].stop = Stop::Fresh;
                            self.bump("ustep-preempt");
                            return;
                        }
                        Some(false) => {}
                    }
                }
            }
            let sig = std::mem::replace(&mut self.ths[i].pending_sig, 0);
            ptrace(libc::PTRACE_SYSCALL, tid, 0, sig as u64);
            let watch = unsafe { TICKING } && self.ths.iter().any(|t| t.upark && t.tid != tid && t.st == St::Ready);
            if watch {
                self.seg_cpu0 = thread_cpu_ns(self.pid, tid);
            }
            unsafe { TICK_RETURNS = watch };
            let ev = loop {
                match wait_tid(tid) {
                    Ev::Timeout if !past_deadline() => {
                        unsafe { ALARMED = false };
                        if watch && !self.force_park {
                            self.spin_check(i);
                        }
                    }
                    e => break e,
                }
            };
            unsafe { TICK_RETURNS = false };
            match ev {
                Ev::Syscall => {
                    self.force_park = false;
                }
                Ev::Event(e) => {
                    if e == libc::PTRACE_EVENT_EXEC {
                        self.disable_vdso(tid);
                    }
                    continue;
                }
                Ev::Sig(s) => {
                    if s == libc::SIGSTOP && self.force_park {
                        // a thread that spin-waits (no system call, no yield) for a thread parked in user space: the state cannot
                        // change until somebody else runs, so this is a forced, deterministic scheduling point
                        self.force_park = false;
                        self.ths[i].stop = Stop::Fresh;
                        self.ths[i].upark = true;
                        self.ths[i].hold = 2;
                        for t in self.ths.iter_mut() {
                            if t.tid != tid {
                                t.hold = 0;
                            }
                        }
                        // like a yield: a busy-waiting thread must not outrank the thread it waits for
                        if self.cfg.sched.kind == "pct" {
                            self.ths[i].prio = self.pct_low;
                            self.pct_low -= 1;
                        }
                        if self.cfg.sched.kind == "rtb" || self.cfg.sched.kind == "explicit" {
                            self.cur = None;
                        }
                        self.ths[i].spun = true;
                        self.ths[i].no_step = true;
                        // the thread it waits for is (almost always) one of those parked in user space: run the oldest of them next
                        self.force_next = (0..self.ths.len()).find(|&j| j != i && self.ths[j].upark && !self.ths[j].spun && self.ths[j].st == St::Ready);
                        self.bump("spin-wait-preempt");
                        return;
                    }
                    if s != libc::SIGSTOP {
                        self.ths[i].pending_sig = s;
                    }
                    continue;
                }
                Ev::Timeout => {
                    self.timeout(i);
                    return;
                }
                ev => {
                    self.thread_died(i, ev);
                    return;
                }
            }
            let regs = getregs(tid);
            let nr = regs.orig_rax as i64;
            let a = args(&regs);
            let sc = sys::lookup(nr);
            let mut class = sc.class;
            if sc.name == "ioctl" && !(a[1] == sys::FICLONE || a[1] == sys::FS_IOC_FIEMAP || a[1] == sys::FICLONERANGE) {
                class = Class::Local;
            }
            match class {
                Class::Local => {
                    // the process id is a source of nondeterminism when it ends up in a file name or a message: the tracee sees a
                    // fixed one; calls that address the process by it (raise, abort) get the real one back
                    if (sc.name == "tgkill" || sc.name == "kill") && a[0] == FAKE_PID {
                        let mut r = regs;
                        r.rdi = self.pid as u64;
                        setregs(tid, &r);
                    }
                    if !self.to_exit_stop(i) {
                        return;
                    }
                    if sc.name == "getpid" {
                        let mut r = getregs(tid);
                        r.rax = FAKE_PID;
                        setregs(tid, &r);
                    }
                }
                Class::GetRandom => {
                    if !self.to_exit_stop(i) {
                        return;
                    }
                    let r = getregs(tid);
                    let n = r.rax as i64;
                    if n > 0 {
                        let mut b = vec![0u8; n as usize];
                        for x in b.iter_mut() {
                            *x = (self.rand_rng.next() & 0xff) as u8;
                        }
                        self.write_mem(a[0], &b);
                    }
                }
                Class::Clock => {
                    if !self.do_clock(i, &regs, sc.name) {
                        return;
                    }
                }
                Class::Fcntl => {
                    if !self.to_exit_stop(i) {
                        return;
                    }
                    let r = getregs(tid).rax as i64;
                    if (a[1] == 0 || a[1] == 1030) && r >= 0 {
                        if let Some(f) = self.fds.get(&(a[0] as i32)).cloned() {
                            self.fds.insert(r as i32, f);
                            self.note_fds();
                        }
                    }
                }
                Class::Sleep | Class::Yield => {
                    if class == Class::Sleep {
                        // the sleeper's time passes on the simulated clock
                        let (tsp, abs) = if sc.name == "clock_nanosleep" { (a[2], a[1] & 1 != 0) } else { (a[0], false) };
                        let t = self.read_u64(tsp).unwrap_or(0).saturating_mul(1_000_000_000).saturating_add(self.read_u64(tsp + 8).unwrap_or(0));
                        if abs {
                            let tm = if a[0] == 0 { t.saturating_sub(self.real_base_ns) } else { t };
                            if tm > self.sim_ns {
                                self.sim_ns = tm;
                            }
                        } else {
                            self.sim_ns = self.sim_ns.saturating_add(t);
                        }
                    }
                    if !self.skip(i, &regs, 0) {
                        return;
                    }
                    if self.cfg.sched.kind == "pct" {
                        self.ths[i].prio = self.pct_low;
                        self.pct_low -= 1;
                    }
                    // a yielding thread gives the token away if anyone else can run
                    if self.cfg.sched.kind == "rtb" || self.cfg.sched.kind == "explicit" {
                        self.cur = None;
                    }
                    self.bump("yield");
                    return;
                }
                Class::Futex => {
                    if self.do_futex(i, &regs) {
                        return;
                    }
                }
                Class::Clone => {
                    if !self.do_clone(i, &regs, sc.name == "clone3") {
                        return;
                    }
                    return; // scheduling point: the child may run first
                }
                Class::Exit => {
                    // thread exit: runs to completion, then its joiners wake
                    ptrace(libc::PTRACE_CONT, tid, 0, 0);
                    match wait_tid(tid) {
                        Ev::Exited(_) | Ev::Signaled(_) => {}
                        Ev::Timeout => {
                            self.timeout(i);
                            return;
                        }
                        _ => {
                            self.outcome = Some(Outcome::Harness("unexpected stop during thread exit".into()));
                            self.kill_all();
                            return;
                        }
                    }
                    self.ths[i].st = St::Exited;
                    if tid == self.pid {
                        // leader called exit(2) alone: treat as process end once others are gone
                        self.group_over(None);
                        return;
                    }
                    let key = self.ths[i].ctid;
                    if key != 0 {
                        self.wake(key, u64::MAX);
                    }
                    return;
                }
                Class::ExitGroup | Class::Visible => {
                    self.ths[i].stop = Stop::AtEntry(regs);
                    return;
                }
            }
        }
    }

    // ---------------------------------------------------------------- futex

    fn wake(&mut self, key: u64, n: u64) -> u64 {
        let mut waiters: Vec<usize> = (0..self.ths.len()).filter(|&j| self.ths[j].st == St::Blocked(key)).collect();
        waiters.sort_by_key(|&j| self.ths[j].blocked_seq);
        let mut woken = 0u64;
        while woken < n && !waiters.is_empty() {
            let k = if self.cfg.kernel.wake_any && waiters.len() > 1 { self.wake_rng.below(waiters.len() as u64) as usize } else { 0 };
            let j = waiters.remove(k);
            self.ths[j].st = St::Ready;
            if let Stop::AtEntry(r) = std::mem::replace(&mut self.ths[j].stop, Stop::Running) {
                self.ths[j].stop = Stop::Woken(r, 0);
            }
            woken += 1;
        }
        woken
    }

    /// returns true if the thread reached a scheduling point (or went away)
    fn do_futex(&mut self, i: usize, regs: &Regs) -> bool {
        let a = args(regs);
        let cmd = a[1] & !(128 | 256);
        match cmd {
            0 | 9 => {
                let cur = self.read_u32(a[0]);
                if cur != Some(a[2] as u32) {
                    let _ = self.skip(i, regs, -(libc::EAGAIN as i64));
                    return self.ths[i].st == St::Exited || self.outcome.is_some();
                }
                self.blocked_ctr += 1;
                self.ths[i].st = St::Blocked(a[0]);
                self.ths[i].blocked_seq = self.blocked_ctr;
                self.ths[i].has_timeout = a[3] != 0;
                if a[3] != 0 {
                    let sec = self.read_u64(a[3]).unwrap_or(0);
                    let nsec = self.read_u64(a[3] + 8).unwrap_or(0);
                    let t = sec.saturating_mul(1_000_000_000).saturating_add(nsec);
                    self.ths[i].deadline_ns = if cmd == 0 {
                        self.sim_ns.saturating_add(t) // FUTEX_WAIT: relative
                    } else if a[1] & 256 != 0 {
                        t.saturating_sub(self.real_base_ns) // FUTEX_WAIT_BITSET | FUTEX_CLOCK_REALTIME: absolute wall-clock
                    } else {
                        t // absolute CLOCK_MONOTONIC
                    };
                }
                self.ths[i].stop = Stop::AtEntry(*regs);
                true
            }
            1 | 10 => {
                let n = self.wake(a[0], a[2] & 0xffff_ffff);
                let _ = self.skip(i, regs, n as i64);
                true
            }
            3 | 4 => {
                if cmd == 4 {
                    let cur = self.read_u32(a[0]);
                    if cur != Some(a[5] as u32) {
                        let _ = self.skip(i, regs, -(libc::EAGAIN as i64));
                        return true;
                    }
                }
                let n = self.wake(a[0], a[2] & 0xffff_ffff);
                let mut moved = 0u64;
                let lim = a[3] & 0xffff_ffff;
                let mut waiters: Vec<usize> = (0..self.ths.len()).filter(|&j| self.ths[j].st == St::Blocked(a[0])).collect();
                waiters.sort_by_key(|&j| self.ths[j].blocked_seq);
                for j in waiters {
                    if moved >= lim {
                        break;
                    }
                    self.ths[j].st = St::Blocked(a[4]);
                    moved += 1;
                }
                let _ = self.skip(i, regs, (n + moved) as i64);
                true
            }
            _ => {
                self.outcome = Some(Outcome::Harness(format!("unmodelled futex op {}", a[1])));
                self.kill_all();
                true
            }
        }
    }

    // ---------------------------------------------------------------- clone

    fn do_clone(&mut self, i: usize, regs: &Regs, is3: bool) -> bool {
        let tid = self.ths[i].tid;
        let a = args(regs);
        let ctid = if is3 { self.read_u64(a[0] + 16).unwrap_or(0) } else { a[3] };
        let flags = if is3 { self.read_u64(a[0]).unwrap_or(0) } else { a[0] };
        let clear = flags & (libc::CLONE_CHILD_CLEARTID as u64) != 0;
        ptrace(libc::PTRACE_SYSCALL, tid, 0, 0);
        match wait_tid(tid) {
            Ev::Event(ev) if ev == libc::PTRACE_EVENT_CLONE || ev == libc::PTRACE_EVENT_FORK || ev == libc::PTRACE_EVENT_VFORK => {
                let mut newtid: u64 = 0;
                ptrace(libc::PTRACE_GETEVENTMSG, tid, 0, &mut newtid as *mut _ as u64);
                let nt = newtid as i32;
                match wait_tid(nt) {
                    Ev::Sig(_) | Ev::Event(_) => {}
                    _ => {
                        self.outcome = Some(Outcome::Harness("new thread did not stop".into()));
                        self.kill_all();
                        return false;
                    }
                }
                let lid = self.ths.len();
                let prio = self.new_prio();
                self.ths.push(Th {
                    tid: nt,
                    lid,
                    st: St::Ready,
                    stop: Stop::Fresh,
                    ctid: if clear { ctid } else { 0 },
                    has_timeout: false,
                    deadline_ns: 0,
                    blocked_seq: 0,
                    role: "?",
                    prio,
                    pending_sig: 0,
                    hold: 0,
                    upark: false,
                    spun: false,
                    no_step: false,
                });
                // finish the parent's call
                self.to_exit_stop(i)
            }
            Ev::Syscall => true, // clone failed: this is already the exit stop
            Ev::Timeout => {
                self.timeout(i);
                false
            }
            Ev::Sig(s) => {
                self.ths[i].pending_sig = s;
                true
            }
            ev => {
                self.thread_died(i, ev);
                false
            }
        }
    }

    // ---------------------------------------------------------------- visible calls

    fn rel_of(&self, abs: &[u8]) -> Option<Vec<u8>> {
        let rb = self.cfg.root.as_os_str().as_bytes();
        if abs.starts_with(rb) && (abs.len() == rb.len() || abs[rb.len()] == b'/') {
            let mut r = abs[rb.len()..].to_vec();
            while r.first() == Some(&b'/') {
                r.remove(0);
            }
            Some(r)
        } else {
            None
        }
    }

    /// Resolve (dirfd, path) to an absolute path for our own lstat, plus sandbox membership and display form.
    fn resolve(&self, dirfd: i64, path: &[u8]) -> (Option<PathBuf>, bool, String) {
        use std::ffi::OsStr;
        if path.first() == Some(&b'/') {
            match self.rel_of(path) {
                Some(rel) => {
                    let mut d = b"$ROOT/".to_vec();
                    d.extend_from_slice(&rel);
                    (Some(PathBuf::from(OsStr::from_bytes(path))), true, pct(&d))
                }
                None => {
                    // an ancestor of the sandbox root (realpath walks them): its spelling depends on where the sandbox lives
                    let rb = self.cfg.root.as_os_str().as_bytes();
                    let disp = if rb.starts_with(path) && path.len() > 1 && rb.get(path.len()) == Some(&b'/') {
                        format!("$ANCESTOR{}", path.iter().filter(|&&c| c == b'/').count())
                    } else {
                        pct(path)
                    };
                    (Some(PathBuf::from(OsStr::from_bytes(path))), false, disp)
                }
            }
        } else if dirfd == sys::AT_FDCWD {
            let full = self.cfg.cwd.join(OsStr::from_bytes(path));
            (Some(full), true, pct(path))
        } else if let Some(f) = self.fds.get(&(dirfd as i32)) {
            if f.sb {
                let base = sandbox::join(&self.cfg.root, &unpct(&f.path));
                let full = if path.is_empty() { base } else { base.join(OsStr::from_bytes(path)) };
                let mut d = unpct(&f.path);
                if !path.is_empty() {
                    d.push(b'/');
                    d.extend_from_slice(path);
                }
                (Some(full), true, pct(&d))
            } else {
                (None, false, pct(path))
            }
        } else {
            (None, false, pct(path))
        }
    }

    fn obj_of_path(&mut self, p: &Path) -> i64 {
        match sandbox::lstat(p) {
            Some(st) => self.ids.id(st.st_dev, st.st_ino) as i64,
            None => -1,
        }
    }

    fn describe(&mut self, regs: &Regs) -> CallInfo {
        let nr = regs.orig_rax as i64;
        let a = args(regs);
        let sc = sys::lookup(nr);
        let mut f = Map::new();
        let mut sb = false;
        let mut fd: Option<i32> = None;
        let mut full_path = None;
        let mut io_len_arg = None;
        let put_fd = |s: &Sup, f: &mut Map<String, Value>, key: &str, n: i32| -> bool {
            f.insert(key.into(), json!(n));
            if let Some(fi) = s.fds.get(&n) {
                f.insert(format!("{}p", key), Value::String(fi.path.clone()));
                if fi.obj >= 0 {
                    f.insert(format!("{}o", key), json!(fi.obj));
                }
                fi.sb
            } else {
                false
            }
        };
        match sc.shape {
            Shape::None => {}
            Shape::Fd(k) => {
                let n = a[k] as i32;
                fd = Some(n);
                sb = put_fd(self, &mut f, "fd", n);
            }
            Shape::Fd2(k_in, k_out) => {
                let i_n = a[k_in] as i32;
                let o_n = a[k_out] as i32;
                let s1 = put_fd(self, &mut f, "in", i_n);
                let s2 = put_fd(self, &mut f, "fd", o_n);
                fd = Some(o_n);
                sb = s1 || s2;
            }
            Shape::Path(k) => {
                let p = self.read_cstr(a[k]);
                let (full, s, disp) = self.resolve(sys::AT_FDCWD, &p);
                sb = s;
                f.insert("p".into(), Value::String(disp));
                if let Some(fp) = &full {
                    if s {
                        let o = self.obj_of_path(fp);
                        f.insert("o".into(), json!(o));
                    }
                }
                full_path = full;
            }
            Shape::At(d, k) => {
                let p = if a[k] == 0 { Vec::new() } else { self.read_cstr(a[k]) };
                let dirfd = a[d] as i32 as i64;
                if p.is_empty() && dirfd != sys::AT_FDCWD {
                    // fd-based form (AT_EMPTY_PATH, futimens)
                    fd = Some(dirfd as i32);
                    sb = put_fd(self, &mut f, "fd", dirfd as i32);
                } else {
                    let (full, s, disp) = self.resolve(dirfd, &p);
                    sb = s;
                    f.insert("p".into(), Value::String(disp));
                    if let Some(fp) = &full {
                        if s {
                            let o = self.obj_of_path(fp);
                            f.insert("o".into(), json!(o));
                        }
                    }
                    full_path = full;
                }
            }
            Shape::Path2(k1, k2) => {
                let p1 = self.read_cstr(a[k1]);
                let p2 = self.read_cstr(a[k2]);
                let (full1, s1, d1) = self.resolve(sys::AT_FDCWD, &p1);
                let (full2, s2, d2) = self.resolve(sys::AT_FDCWD, &p2);
                sb = s1 || s2;
                f.insert("p".into(), Value::String(d1));
                f.insert("p2".into(), Value::String(d2));
                if let Some(fp) = &full1 {
                    let o = self.obj_of_path(fp);
                    f.insert("o".into(), json!(o));
                }
                if let Some(fp) = &full2 {
                    let o = self.obj_of_path(fp);
                    f.insert("o2".into(), json!(o));
                }
                full_path = full2;
            }
            Shape::At2(da, ka, db, kb) => {
                let p1 = self.read_cstr(a[ka]);
                let p2 = self.read_cstr(a[kb]);
                let (full1, s1, d1) = self.resolve(a[da] as i32 as i64, &p1);
                let (full2, s2, d2) = self.resolve(a[db] as i32 as i64, &p2);
                sb = s1 || s2;
                f.insert("p".into(), Value::String(d1));
                f.insert("p2".into(), Value::String(d2));
                if let Some(fp) = &full1 {
                    let o = self.obj_of_path(fp);
                    f.insert("o".into(), json!(o));
                }
                if let Some(fp) = &full2 {
                    let o = self.obj_of_path(fp);
                    f.insert("o2".into(), json!(o));
                }
                full_path = full2;
            }
            Shape::Sym(kt, kl) => {
                let t = self.read_cstr(a[kt]);
                let l = self.read_cstr(a[kl]);
                let (full, s, d) = self.resolve(sys::AT_FDCWD, &l);
                sb = s;
                let tdisp = match self.rel_of(&t) {
                    Some(rel) => {
                        let mut x = b"$ROOT/".to_vec();
                        x.extend_from_slice(&rel);
                        pct(&x)
                    }
                    None => pct(&t),
                };
                f.insert("to".into(), Value::String(tdisp));
                f.insert("p".into(), Value::String(d));
                if let Some(fp) = &full {
                    let o = self.obj_of_path(fp);
                    f.insert("o".into(), json!(o));
                }
                full_path = full;
            }
            Shape::SymAt(kt, kd, kl) => {
                let t = self.read_cstr(a[kt]);
                let l = self.read_cstr(a[kl]);
                let (full, s, d) = self.resolve(a[kd] as i32 as i64, &l);
                sb = s;
                f.insert("to".into(), Value::String(pct(&t)));
                f.insert("p".into(), Value::String(d));
                if let Some(fp) = &full {
                    let o = self.obj_of_path(fp);
                    f.insert("o".into(), json!(o));
                }
                full_path = full;
            }
        }
        let mut mutating = false;
        match sc.name {
            "read" | "write" => {
                f.insert("len".into(), json!(a[2]));
                io_len_arg = Some(2);
                mutating = sc.name == "write";
                if sc.name == "write" && a[0] as i32 == 99 {
                    // the API probe's update stream: keep the payload
                    let n = std::cmp::min(a[2] as usize, 512);
                    let b = self.read_mem(a[1], n);
                    f.insert("upd".into(), Value::String(String::from_utf8_lossy(&b).to_string()));
                }
            }
            "pread64" | "pwrite64" => {
                f.insert("len".into(), json!(a[2]));
                f.insert("off".into(), json!(a[3]));
                io_len_arg = Some(2);
                mutating = sc.name == "pwrite64";
            }
            "readv" | "writev" => {
                mutating = sc.name == "writev";
            }
            "copy_file_range" => {
                f.insert("len".into(), json!(a[4]));
                if a[1] != 0 {
                    f.insert("ioff".into(), json!(self.read_u64(a[1]).unwrap_or(0)));
                }
                if a[3] != 0 {
                    f.insert("ooff".into(), json!(self.read_u64(a[3]).unwrap_or(0)));
                }
                io_len_arg = Some(4);
                mutating = true;
            }
            "sendfile" => {
                f.insert("len".into(), json!(a[3]));
                io_len_arg = Some(3);
                mutating = true;
            }
            "open" | "creat" => {
                f.insert("flags".into(), json!(a[1]));
                f.insert("mode".into(), json!(a[2] & 0o7777));
                mutating = (a[1] as i32 & (libc::O_CREAT | libc::O_TRUNC | libc::O_WRONLY | libc::O_RDWR)) != 0 || sc.name == "creat";
            }
            "openat" => {
                f.insert("flags".into(), json!(a[2]));
                f.insert("mode".into(), json!(a[3] & 0o7777));
                mutating = (a[2] as i32 & (libc::O_CREAT | libc::O_TRUNC | libc::O_WRONLY | libc::O_RDWR)) != 0;
            }
            "lseek" => {
                f.insert("off".into(), json!(a[1] as i64));
                f.insert("whence".into(), json!(a[2]));
            }
            "ftruncate" | "truncate" => {
                f.insert("len".into(), json!(a[1]));
                mutating = true;
            }
            "fallocate" => {
                f.insert("mode".into(), json!(a[1]));
                f.insert("off".into(), json!(a[2]));
                f.insert("len".into(), json!(a[3]));
                mutating = true;
            }
            "ioctl" => {
                let nm = match a[1] {
                    sys::FICLONE => "FICLONE",
                    sys::FS_IOC_FIEMAP => "FIEMAP",
                    sys::FICLONERANGE => "FICLONERANGE",
                    _ => "other",
                };
                f.insert("req".into(), Value::String(nm.into()));
                if a[1] == sys::FICLONE {
                    let src = a[2] as i32;
                    let s1 = put_fd(self, &mut f, "in", src);
                    sb = sb || s1;
                    mutating = true;
                }
            }
            "mkdir" => {
                f.insert("mode".into(), json!(a[1] & 0o7777));
                mutating = true;
            }
            "mkdirat" => {
                f.insert("mode".into(), json!(a[2] & 0o7777));
                mutating = true;
            }
            "mknod" => {
                f.insert("mode".into(), json!(a[1]));
                f.insert("dev".into(), json!(a[2]));
                mutating = true;
            }
            "mknodat" => {
                f.insert("mode".into(), json!(a[2]));
                f.insert("dev".into(), json!(a[3]));
                mutating = true;
            }
            "fchmod" | "chmod" => {
                f.insert("mode".into(), json!(a[1] & 0o7777));
                mutating = true;
            }
            "fchmodat" | "fchmodat2" => {
                f.insert("mode".into(), json!(a[2] & 0o7777));
                mutating = true;
            }
            "fchown" | "chown" | "lchown" => {
                f.insert("uid".into(), json!(a[1] as u32));
                f.insert("gid".into(), json!(a[2] as u32));
                mutating = true;
            }
            "fchownat" => {
                f.insert("uid".into(), json!(a[2] as u32));
                f.insert("gid".into(), json!(a[3] as u32));
                mutating = true;
            }
            "utimensat" => {
                if a[2] != 0 {
                    let b = self.read_mem(a[2] + 16, 16);
                    if b.len() == 16 {
                        let sec = i64::from_le_bytes([b[0], b[1], b[2], b[3], b[4], b[5], b[6], b[7]]);
                        let nsec = i64::from_le_bytes([b[8], b[9], b[10], b[11], b[12], b[13], b[14], b[15]]);
                        if nsec == 0x3fff_fffe {
                            f.insert("mt".into(), Value::String("omit".into()));
                        } else if nsec == 0x3fff_ffff {
                            f.insert("mt".into(), Value::String("now".into()));
                        } else {
                            // a timestamp taken from the wall clock during this run (e.g. copied from a file that was
                            // just created or truncated) is not sandbox data: log it symbolically
                            let now = std::time::SystemTime::now().duration_since(std::time::UNIX_EPOCH).map(|d| d.as_secs() as i64).unwrap_or(0);
                            if (sec - now).abs() < 3600 {
                                f.insert("mt".into(), Value::String("recent".into()));
                            } else {
                                f.insert("mt".into(), json!(sec as i128 * 1_000_000_000 + nsec as i128));
                            }
                        }
                    }
                }
                mutating = true;
            }
            "setxattr" | "lsetxattr" | "fsetxattr" | "getxattr" | "lgetxattr" | "fgetxattr" | "removexattr" | "lremovexattr"
            | "fremovexattr" => {
                let n = self.read_cstr(a[1]);
                f.insert("name".into(), Value::String(pct(&n)));
                mutating = sc.name.contains("set") || sc.name.contains("remove");
            }
            "rename" | "renameat" | "renameat2" | "unlink" | "unlinkat" | "rmdir" | "symlink" | "symlinkat" | "link" | "linkat" => {
                mutating = true;
            }
            "statx" => {
                f.insert("flags".into(), json!(a[2]));
            }
            "newfstatat" => {
                f.insert("flags".into(), json!(a[3]));
            }
            "sys_other" => {
                f.insert("nr".into(), json!(nr));
            }
            _ => {}
        }
        CallInfo { name: sc.name, sb, fields: f, fd, full_path, io_len_arg, mutating }
    }

    fn note_fds(&mut self) {
        if self.fds.len() > self.peak_fds {
            self.peak_fds = self.fds.len();
        }
        let n = self.fds.values().filter(|f| f.sb).count();
        if n > self.peak_sb_fds {
            self.peak_sb_fds = n;
        }
    }

    fn register_fd(&mut self, n: i32) -> FdInfo {
        let link = format!("/proc/{}/fd/{}", self.pid, n);
        let target = std::fs::read_link(&link).map(|p| p.as_os_str().as_bytes().to_vec()).unwrap_or_default();
        let st = sandbox::stat(Path::new(&link));
        let (path, sb) = match self.rel_of(&target) {
            Some(rel) => (pct(&rel), true),
            None => {
                let t = String::from_utf8_lossy(&target).to_string();
                let pfx = format!("/proc/{}/", self.pid);
                let t = if t.starts_with(&pfx) { format!("/proc/self/{}", &t[pfx.len()..]) } else { t };
                (pct(t.as_bytes()), false)
            }
        };
        let (obj, kind) = match st {
            Some(s) if sb => (
                self.ids.id(s.st_dev, s.st_ino) as i64,
                match s.st_mode & libc::S_IFMT {
                    libc::S_IFREG => 'f',
                    libc::S_IFDIR => 'd',
                    libc::S_IFIFO => 'p',
                    libc::S_IFCHR => 'c',
                    libc::S_IFSOCK => 's',
                    _ => '?',
                },
            ),
            _ => (-1, '-'),
        };
        let fi = FdInfo { path, sb, obj, kind };
        self.fds.insert(n, fi.clone());
        self.note_fds();
        fi
    }

    fn set_role(&mut self, i: usize, ci: &CallInfo) {
        if self.ths[i].lid == 0 {
            return;
        }
        let cur = self.ths[i].role;
        let new = match ci.name {
            "getdents64" if ci.sb => "walker",
            "copy_file_range" | "pread64" | "pwrite64" | "sendfile" if ci.sb => {
                if cur == "?" {
                    "worker"
                } else {
                    cur
                }
            }
            "openat" if ci.sb && cur == "?" => {
                let flags = ci.fields.get("flags").and_then(|v| v.as_u64()).unwrap_or(0) as i32;
                if flags & libc::O_DIRECTORY != 0 {
                    "walker"
                } else {
                    "opener"
                }
            }
            _ => cur,
        };
        self.ths[i].role = new;
    }

    fn log_event(&mut self, lid: usize, role: &str, ci: &CallInfo, site: Option<u64>, ret: &Value, tag: Option<String>) {
        let mut m = Map::new();
        m.insert("i".into(), json!(self.seq));
        m.insert("t".into(), json!(lid));
        m.insert("c".into(), Value::String(ci.name.into()));
        if let Some(s) = site {
            m.insert("site".into(), json!(s));
        }
        for (k, v) in &ci.fields {
            if !ci.sb && k == "len" {
                continue; // e.g. length of a log line naming an absolute path: environment data
            }
            m.insert(k.clone(), v.clone());
        }
        m.insert("r".into(), ret.clone());
        if let Some(t) = tag {
            m.insert("f".into(), Value::String(t));
        }
        let s = Value::Object(m);
        let text = s.to_string();
        self.log_hash.bytes(text.as_bytes());
        self.sig_hash.u64(lid as u64);
        self.sig_hash.bytes(ci.name.as_bytes());
        *self.calls_by_name.entry(ci.name.to_string()).or_insert(0) += 1;
        self.seq += 1;
        let keep = match self.cfg.log.as_str() {
            "none" => false,
            "sandbox" => ci.sb || ci.mutating || ci.fields.contains_key("upd"),
            _ => true,
        };
        if keep && self.events.len() >= 150_000 {
            // runaway run: keep the head of the log only (the run ends in a budget violation anyway)
            self.events_dropped += 1;
        } else if keep {
            let mut s = s;
            if let Some(o) = s.as_object_mut() {
                o.insert("role".into(), Value::String(role.into()));
            }
            self.events.push(s);
        }
    }

    fn ret_value(r: i64) -> Value {
        if r < 0 && r > -4096 {
            Value::String(format!("-{}", errno_name((-r) as i32)))
        } else {
            json!(r)
        }
    }

    /// Perform the parked visible call of thread i. Returns true if the thread should keep running.
    fn do_call(&mut self, i: usize, regs: Regs) -> bool {
        let tid = self.ths[i].tid;
        let nr = regs.orig_rax as i64;
        let a = args(&regs);
        let sc = sys::lookup(nr);
        if sc.class == Class::ExitGroup {
            ptrace(libc::PTRACE_CONT, tid, 0, 0);
            self.ths[i].st = St::Exited;
            self.group_over(None);
            return false;
        }
        let ci = self.describe(&regs);
        self.set_role(i, &ci);
        let lid = self.ths[i].lid;
        let role = self.ths[i].role;
        let site = if ci.sb {
            let s = self.sites;
            self.sites += 1;
            Some(s)
        } else {
            None
        };
        // crash plan
        if let (Some(k), Some(s)) = (self.cfg.kill_at, site) {
            if k == s {
                self.ths[i].stop = Stop::AtEntry(regs);
                self.kill_all();
                self.outcome = Some(Outcome::Killed);
                self.bump("kill");
                return false;
            }
        }
        // blocking-forever hazard: opening a FIFO without O_NONBLOCK and without a peer
        if (ci.name == "openat" || ci.name == "open") && ci.sb {
            let flags = if ci.name == "openat" { a[2] } else { a[1] } as i32;
            if flags & (libc::O_NONBLOCK | libc::O_PATH) == 0 {
                if let Some(fp) = &ci.full_path {
                    let st = if flags & libc::O_NOFOLLOW != 0 { sandbox::lstat(fp) } else { sandbox::stat(fp) };
                    if let Some(st) = st {
                        if st.st_mode & libc::S_IFMT == libc::S_IFIFO {
                            self.log_event(lid, role, &ci, site, &Value::String("BLOCKS-FOREVER".into()), Some("fifo-open".into()));
                            self.ths[i].st = St::BlockedNever;
                            self.ths[i].stop = Stop::AtEntry(regs);
                            self.bump("fifo-open-blocks");
                            return false;
                        }
                    }
                }
            }
        }
        // decide what the simulated kernel does with it
        let mut tag: Option<String> = None;
        let mut fail: Option<i32> = None;
        let mut clamp: Option<u64> = None;
        let mut emulate: Option<&'static str> = None;
        if let Some(s) = site {
            let pth = ci.fields.get("p").or_else(|| ci.fields.get("fdp")).and_then(|v| v.as_str()).unwrap_or("").to_string();
            let key = (ci.name.to_string(), pth.clone());
            let nth = *self.match_ctr.get(&key).unwrap_or(&0);
            self.match_ctr.insert(key, nth + 1);
            for fl in self.cfg.faults.iter_mut() {
                let hit = match (&fl.m_call, &fl.m_path) {
                    (Some(c), Some(p)) => c == ci.name && *p == pth && fl.m_nth == nth,
                    _ => fl.site == s,
                };
                if hit {
                    if let Some(e) = fl.errno {
                        fail = Some(e);
                        fl.fired = Some(if ci.fd.is_some() && ci.name.contains("stat") { format!("{}-fd", ci.name) } else { ci.name.to_string() });
                    } else if let Some(k) = fl.clamp {
                        if ci.io_len_arg.is_some() {
                            clamp = Some(k);
                            fl.fired = Some(ci.name.to_string());
                        }
                    }
                }
            }
        }
        if fail.is_none() && ci.sb {
            if ci.name == "copy_file_range" {
                self.cfr_count += 1;
                if let Some(e) = self.cfg.kernel.cfr {
                    if self.cfr_count > self.cfg.kernel.cfr_after {
                        fail = Some(e);
                        self.bump("cfr-unavailable");
                    }
                }
            }
            if ci.name == "ioctl" {
                if a[1] == sys::FICLONE {
                    match self.cfg.kernel.ficlone.clone().as_deref() {
                        None | Some("native") => {}
                        Some("emulate") => emulate = Some("ficlone"),
                        Some(e) => {
                            fail = errno_by_name(e);
                            self.bump("ficlone-errno");
                        }
                    }
                } else if a[1] == sys::FS_IOC_FIEMAP {
                    match self.cfg.kernel.fiemap.clone().as_deref() {
                        None | Some("native") => {}
                        Some("emulate") => emulate = Some("fiemap"),
                        Some(e) => {
                            fail = errno_by_name(e);
                            self.bump("fiemap-errno");
                        }
                    }
                }
            }
            if let (Some(m), Some(k)) = (self.cfg.kernel.max_io, ci.io_len_arg) {
                if fail.is_none() && a[k] > m {
                    clamp = Some(match clamp {
                        Some(c) => std::cmp::min(c, m),
                        None => m,
                    });
                }
            }
        }
        let ret: i64;
        if let Some(e) = fail {
            tag = Some(format!("errno:{}", errno_name(e)));
            if !self.skip(i, &regs, -(e as i64)) {
                return false;
            }
            ret = -(e as i64);
            self.bump("errno");
        } else if let Some(kind) = emulate {
            let r = match kind {
                "ficlone" => self.emu_ficlone(a[0] as i32, a[2] as i32),
                _ => self.emu_fiemap(a[0] as i32, a[2]),
            };
            tag = Some(format!("emulated:{}", kind));
            if !self.skip(i, &regs, r) {
                return false;
            }
            ret = r;
            self.bump(&format!("emulated-{}", kind));
        } else {
            let mut r2 = regs;
            let mut modified = false;
            if let (Some(c), Some(k)) = (clamp, ci.io_len_arg) {
                let c = std::cmp::max(1, c);
                if a[k] > c {
                    match k {
                        2 => r2.rdx = c,
                        3 => r2.r10 = c,
                        4 => r2.r8 = c,
                        _ => {}
                    }
                    modified = true;
                    tag = Some(format!("clamp:{}", c));
                    self.bump("clamp");
                }
            }
            match self.exec(i, if modified { Some(&r2) } else { None }) {
                Some(r) => ret = r,
                None => return false,
            }
        }
        // post-processing
        let mut ci = ci;
        if ret >= 0 {
            match ci.name {
                "openat" | "open" | "creat" => {
                    let fi = self.register_fd(ret as i32);
                    if fi.sb {
                        ci.fields.insert("fo".into(), json!(fi.obj));
                        ci.fields.insert("fk".into(), Value::String(fi.kind.to_string()));
                    }
                }
                "dup" => {
                    if let Some(f) = self.fds.get(&(a[0] as i32)).cloned() {
                        self.fds.insert(ret as i32, f);
                        self.note_fds();
                    }
                }
                "dup2" | "dup3" => {
                    if let Some(f) = self.fds.get(&(a[0] as i32)).cloned() {
                        self.fds.insert(a[1] as i32, f);
                        self.note_fds();
                    }
                }
                "getdents64" if ret > 0 && ci.sb && self.cfg.kernel.getdents != "native" => {
                    self.permute_dents(a[1], ret as usize, ci.fields.get("fdp").and_then(|v| v.as_str()).unwrap_or("").to_string());
                }
                _ => {}
            }
        }
        if ci.name == "close" {
            if let Some(n) = ci.fd {
                self.fds.remove(&n);
            }
        }
        // results of calls on objects outside the sandbox are environment data: keep only ok / errno
        // (and of readlink, whose length depends on where the sandbox lives when the target is absolute)
        let rv = if (ci.sb && ci.name != "readlink" && ci.name != "readlinkat") || ret < 0 { Self::ret_value(ret) } else { json!(0) };
        self.log_event(lid, role, &ci, site, &rv, tag);
        true
    }

    fn permute_dents(&mut self, buf: u64, n: usize, dirpath: String) {
        let b = self.read_mem(buf, n);
        if b.len() != n {
            return;
        }
        let mut recs: Vec<(Vec<u8>, Vec<u8>)> = Vec::new(); // (name, raw record)
        let mut offs: Vec<[u8; 8]> = Vec::new();
        let mut p = 0;
        while p + 19 <= n {
            let reclen = u16::from_le_bytes([b[p + 16], b[p + 17]]) as usize;
            if reclen == 0 || p + reclen > n {
                return;
            }
            let name_raw = &b[p + 19..p + reclen];
            let z = name_raw.iter().position(|&c| c == 0).unwrap_or(name_raw.len());
            recs.push((name_raw[..z].to_vec(), b[p..p + reclen].to_vec()));
            let mut o = [0u8; 8];
            o.copy_from_slice(&b[p + 8..p + 16]);
            offs.push(o);
            p += reclen;
        }
        recs.sort_by(|x, y| x.0.cmp(&y.0));
        if self.cfg.kernel.getdents == "perm" {
            self.getdents_count += 1;
            let mut r = Rng::new(self.cfg.seed, &format!("getdents:{}:{}", dirpath, self.getdents_count));
            for k in (1..recs.len()).rev() {
                let j = r.below(k as u64 + 1) as usize;
                recs.swap(k, j);
            }
        }
        let mut out = Vec::with_capacity(n);
        for (k, (_, raw)) in recs.iter().enumerate() {
            let mut rr = raw.clone();
            rr[8..16].copy_from_slice(&offs[k]);
            out.extend_from_slice(&rr);
        }
        if out.len() == n {
            self.write_mem(buf, &out);
        }
    }

    fn open_tracee_fd(&self, fd: i32, flags: i32) -> i32 {
        let c = CString::new(format!("/proc/{}/fd/{}", self.pid, fd)).unwrap();
        unsafe { libc::open(c.as_ptr(), flags | libc::O_CLOEXEC) }
    }

    fn emu_ficlone(&mut self, dst: i32, src: i32) -> i64 {
        let s = self.open_tracee_fd(src, libc::O_RDONLY);
        let d = self.open_tracee_fd(dst, libc::O_WRONLY);
        if s < 0 || d < 0 {
            unsafe {
                if s >= 0 {
                    libc::close(s);
                }
                if d >= 0 {
                    libc::close(d);
                }
            }
            return -(libc::EBADF as i64);
        }
        let mut st: libc::stat = unsafe { std::mem::zeroed() };
        unsafe { libc::fstat(s, &mut st) };
        let size = st.st_size as u64;
        unsafe { libc::ftruncate(d, 0) };
        unsafe { libc::ftruncate(d, size as i64) };
        let segs = sandbox::data_map(s, size);
        let mut buf = vec![0u8; 1 << 16];
        for (a, b) in segs {
            let mut o = a;
            while o < b {
                let want = std::cmp::min(buf.len() as u64, b - o) as usize;
                let n = unsafe { libc::pread(s, buf.as_mut_ptr() as *mut _, want, o as i64) };
                if n <= 0 {
                    break;
                }
                unsafe { libc::pwrite(d, buf.as_ptr() as *const _, n as usize, o as i64) };
                o += n as u64;
            }
        }
        unsafe {
            libc::close(s);
            libc::close(d);
        }
        0
    }

    fn emu_fiemap(&mut self, fd: i32, ptr: u64) -> i64 {
        let hdr = self.read_mem(ptr, 32);
        if hdr.len() != 32 {
            return -(libc::EFAULT as i64);
        }
        let rd64 = |o: usize| u64::from_le_bytes([hdr[o], hdr[o + 1], hdr[o + 2], hdr[o + 3], hdr[o + 4], hdr[o + 5], hdr[o + 6], hdr[o + 7]]);
        let rd32 = |o: usize| u32::from_le_bytes([hdr[o], hdr[o + 1], hdr[o + 2], hdr[o + 3]]);
        let fm_start = rd64(0);
        let fm_length = rd64(8);
        let count = rd32(24) as usize;
        let f = self.open_tracee_fd(fd, libc::O_RDONLY);
        if f < 0 {
            return -(libc::EBADF as i64);
        }
        let mut st: libc::stat = unsafe { std::mem::zeroed() };
        unsafe { libc::fstat(f, &mut st) };
        let size = st.st_size as u64;
        let segs = sandbox::data_map(f, size);
        unsafe { libc::close(f) };
        // build the file's extent list per emulation options
        let mut exts: Vec<(u64, u64)> = Vec::new();
        let split = self.cfg.kernel.fiemap_split;
        for (a, b) in segs {
            if split > 0 {
                let mut o = a;
                while o < b {
                    let e = std::cmp::min(b, o + split);
                    exts.push((o, e));
                    o = e;
                }
            } else {
                exts.push((a, b));
            }
        }
        if self.cfg.kernel.fiemap_round_eof {
            if let Some(l) = exts.last_mut() {
                l.1 = (l.1 + 4095) & !4095;
            }
        }
        if self.cfg.kernel.fiemap_past_eof > 0 {
            // space preallocated beyond EOF (fallocate KEEP_SIZE): ext4/xfs report it as a (trailing) extent
            let a = (size + 4095) & !4095;
            exts.push((a, a + self.cfg.kernel.fiemap_past_eof));
        }
        let end = fm_start.saturating_add(fm_length);
        let total = exts.len();
        let mut out: Vec<(u64, u64, bool)> = Vec::new();
        for (k, &(a, b)) in exts.iter().enumerate() {
            if b <= fm_start || a >= end {
                continue;
            }
            if count > 0 && out.len() >= count {
                break;
            }
            out.push((a, b, k + 1 == total));
        }
        let mut data = Vec::new();
        if count > 0 {
            for &(a, b, last) in &out {
                let mut e = [0u8; 56];
                e[0..8].copy_from_slice(&a.to_le_bytes());
                // physical placement: as far apart as the logical offsets, or (fiemap_phys_packed) back to back on the device
                // although the file has holes in between - what insert-range, aged or copy-on-write file systems produce
                let phys = if self.cfg.kernel.fiemap_phys_packed {
                    0x1000_0000u64 + exts.iter().take_while(|x| x.0 < a).map(|x| x.1 - x.0).sum::<u64>()
                } else {
                    0x1000_0000u64 + a
                };
                e[8..16].copy_from_slice(&phys.to_le_bytes());
                e[16..24].copy_from_slice(&(b - a).to_le_bytes());
                // informational flag bits real file systems set on extents that do hold data (unwritten-but-dirty after
                // fallocate+write, delalloc, merged, shared, not-aligned): seeded per extent
                let mut flags: u32 = if last { 1 } else { 0 };
                if self.cfg.kernel.fiemap_flagbits != 0 && mix2(self.cfg.seed ^ a, 0xF1E) % 2 == 0 {
                    flags |= self.cfg.kernel.fiemap_flagbits as u32;
                }
                e[40..44].copy_from_slice(&flags.to_le_bytes());
                data.extend_from_slice(&e);
            }
            if !data.is_empty() {
                self.write_mem(ptr + 32, &data);
            }
        }
        self.write_mem(ptr + 20, &(out.len() as u32).to_le_bytes());
        0
    }

    // ---------------------------------------------------------------- results

    pub fn stats(&self) -> Value {
        let fired: Vec<Value> = self
            .cfg
            .faults
            .iter()
            .map(|f| json!({"site": f.site, "errno": f.errno.map(errno_name), "clamp": f.clamp, "fired": f.fired}))
            .collect();
        let roles: Vec<Value> = self.ths.iter().map(|t| json!([t.lid, t.role])).collect();
        json!({
            "steps": self.steps,
            "events": self.seq,
            "sites": self.sites,
            "threads": self.ths.len(),
            "switches": self.switches,
            "usteps": self.usteps,
            "sim_elapsed_ns": self.sim_ns.saturating_sub(1_000_000_000_000),
            "clock_owned": self.vdso_off,
            "max_ready": self.max_ready,
            "peak_fds": self.peak_fds,
            "peak_sb_fds": self.peak_sb_fds,
            "log_hash": self.log_hash.hex(),
            "sched_sig": self.sig_hash.hex(),
            "faults": fired,
            "kernel_fired": self.fired_kernel,
            "calls": self.calls_by_name,
            "roles": roles,
            "events_dropped": self.events_dropped,
        })
    }
}
