// System call table for x86_64: names, classes and argument shapes.

#[derive(Clone, Copy, PartialEq, Debug)]
pub enum Class {
    Local,     // executed at once, not a scheduling point, not logged
    Visible,   // scheduling point before the call; logged; fault site if it names a sandbox object
    Futex,
    Yield,
    Sleep,
    Clone,
    Exit,
    ExitGroup,
    GetRandom,
    Fcntl,
    Clock, // time queries: answered from the simulated clock (the vDSO is switched off at exec so that they are system calls)
}

/// How to find the object(s) a call names.
#[derive(Clone, Copy, PartialEq, Debug)]
pub enum Shape {
    None,
    Fd(usize),                 // fd in arg i
    Path(usize),               // path in arg i, relative to cwd
    At(usize, usize),          // dirfd in arg i, path in arg j
    Path2(usize, usize),       // two cwd-relative paths (rename, link)
    At2(usize, usize, usize, usize), // renameat/linkat
    Sym(usize, usize),         // symlink(target text, linkpath)
    SymAt(usize, usize, usize), // symlinkat(target text, dirfd, linkpath)
    Fd2(usize, usize),         // two fds: (in, out)
}

pub struct Sc {
    pub name: &'static str,
    pub class: Class,
    pub shape: Shape,
}

pub fn lookup(nr: i64) -> Sc {
    use Class::*;
    use Shape::*;
    let (name, class, shape) = match nr {
        0 => ("read", Visible, Fd(0)),
        1 => ("write", Visible, Fd(0)),
        2 => ("open", Visible, Path(0)),
        3 => ("close", Visible, Fd(0)),
        4 => ("stat", Visible, Path(0)),
        5 => ("fstat", Visible, Fd(0)),
        6 => ("lstat", Visible, Path(0)),
        7 => ("poll", Local, None),
        8 => ("lseek", Visible, Fd(0)),
        9 => ("mmap", Local, None),
        10 => ("mprotect", Local, None),
        11 => ("munmap", Local, None),
        12 => ("brk", Local, None),
        13 => ("rt_sigaction", Local, None),
        14 => ("rt_sigprocmask", Local, None),
        15 => ("rt_sigreturn", Local, None),
        16 => ("ioctl", Visible, Fd(0)),
        17 => ("pread64", Visible, Fd(0)),
        18 => ("pwrite64", Visible, Fd(0)),
        19 => ("readv", Visible, Fd(0)),
        20 => ("writev", Visible, Fd(0)),
        21 => ("access", Visible, Path(0)),
        24 => ("sched_yield", Yield, None),
        25 => ("mremap", Local, None),
        28 => ("madvise", Local, None),
        32 => ("dup", Visible, Fd(0)),
        33 => ("dup2", Visible, Fd(0)),
        35 => ("nanosleep", Sleep, None),
        39 => ("getpid", Local, None),
        40 => ("sendfile", Visible, Fd2(1, 0)),
        56 => ("clone", Clone, None),
        59 => ("execve", Local, None),
        60 => ("exit", Exit, None),
        63 => ("uname", Local, None),
        72 => ("fcntl", Fcntl, Fd(0)),
        74 => ("fsync", Visible, Fd(0)),
        75 => ("fdatasync", Visible, Fd(0)),
        76 => ("truncate", Visible, Path(0)),
        77 => ("ftruncate", Visible, Fd(0)),
        79 => ("getcwd", Local, None),
        80 => ("chdir", Visible, Path(0)),
        82 => ("rename", Visible, Path2(0, 1)),
        83 => ("mkdir", Visible, Path(0)),
        84 => ("rmdir", Visible, Path(0)),
        85 => ("creat", Visible, Path(0)),
        86 => ("link", Visible, Path2(0, 1)),
        87 => ("unlink", Visible, Path(0)),
        88 => ("symlink", Visible, Sym(0, 1)),
        89 => ("readlink", Visible, Path(0)),
        90 => ("chmod", Visible, Path(0)),
        91 => ("fchmod", Visible, Fd(0)),
        92 => ("chown", Visible, Path(0)),
        93 => ("fchown", Visible, Fd(0)),
        94 => ("lchown", Visible, Path(0)),
        95 => ("umask", Visible, None), // process-wide state: a scheduling point, so that other threads can run inside a umask(0)..umask(old) pair
        96 => ("gettimeofday", Clock, None),
        97 => ("getrlimit", Local, None),
        99 => ("sysinfo", Local, None),
        102 => ("getuid", Local, None),
        104 => ("getgid", Local, None),
        107 => ("geteuid", Local, None),
        108 => ("getegid", Local, None),
        110 => ("getppid", Local, None),
        131 => ("sigaltstack", Local, None),
        133 => ("mknod", Visible, Path(0)),
        157 => ("prctl", Local, None),
        158 => ("arch_prctl", Local, None),
        186 => ("gettid", Local, None),
        188 => ("setxattr", Visible, Path(0)),
        189 => ("lsetxattr", Visible, Path(0)),
        190 => ("fsetxattr", Visible, Fd(0)),
        191 => ("getxattr", Visible, Path(0)),
        192 => ("lgetxattr", Visible, Path(0)),
        193 => ("fgetxattr", Visible, Fd(0)),
        194 => ("listxattr", Visible, Path(0)),
        195 => ("llistxattr", Visible, Path(0)),
        196 => ("flistxattr", Visible, Fd(0)),
        197 => ("removexattr", Visible, Path(0)),
        198 => ("lremovexattr", Visible, Path(0)),
        199 => ("fremovexattr", Visible, Fd(0)),
        202 => ("futex", Futex, None),
        203 => ("sched_setaffinity", Local, None),
        204 => ("sched_getaffinity", Local, None),
        217 => ("getdents64", Visible, Fd(0)),
        218 => ("set_tid_address", Local, None),
        221 => ("fadvise64", Visible, Fd(0)),
        201 => ("time", Clock, None),
        228 => ("clock_gettime", Clock, None),
        229 => ("clock_getres", Local, None),
        230 => ("clock_nanosleep", Sleep, None),
        231 => ("exit_group", ExitGroup, None),
        234 => ("tgkill", Local, None),
        257 => ("openat", Visible, At(0, 1)),
        258 => ("mkdirat", Visible, At(0, 1)),
        259 => ("mknodat", Visible, At(0, 1)),
        260 => ("fchownat", Visible, At(0, 1)),
        262 => ("newfstatat", Visible, At(0, 1)),
        263 => ("unlinkat", Visible, At(0, 1)),
        264 => ("renameat", Visible, At2(0, 1, 2, 3)),
        265 => ("linkat", Visible, At2(0, 1, 2, 3)),
        266 => ("symlinkat", Visible, SymAt(0, 1, 2)),
        267 => ("readlinkat", Visible, At(0, 1)),
        268 => ("fchmodat", Visible, At(0, 1)),
        269 => ("faccessat", Visible, At(0, 1)),
        273 => ("set_robust_list", Local, None),
        274 => ("get_robust_list", Local, None),
        277 => ("sync_file_range", Visible, Fd(0)),
        280 => ("utimensat", Visible, At(0, 1)),
        285 => ("fallocate", Visible, Fd(0)),
        292 => ("dup3", Visible, Fd(0)),
        302 => ("prlimit64", Local, None),
        306 => ("syncfs", Visible, Fd(0)),
        316 => ("renameat2", Visible, At2(0, 1, 2, 3)),
        318 => ("getrandom", GetRandom, None),
        324 => ("membarrier", Local, None),
        326 => ("copy_file_range", Visible, Fd2(0, 2)),
        332 => ("statx", Visible, At(0, 1)),
        334 => ("rseq", Local, None),
        435 => ("clone3", Clone, None),
        439 => ("faccessat2", Visible, At(0, 1)),
        452 => ("fchmodat2", Visible, At(0, 1)),
        _ => ("sys_other", Visible, None),
    };
    Sc { name, class, shape }
}

pub const FICLONE: u64 = 0x4004_9409;
pub const FICLONERANGE: u64 = 0x4020_940D;
pub const FS_IOC_FIEMAP: u64 = 0xC020_660B;
pub const AT_FDCWD: i64 = -100;
