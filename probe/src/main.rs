// API probe: drives libxcp / libfs exactly as a library client would, always under the supervisor.
// Every StatusUpdate is emitted as one write(2) on descriptor 99 so that the supervisor's global
// event order interleaves updates with the data system calls.

use std::fs::File;
use std::io::Write;
use std::os::unix::io::FromRawFd;
use std::path::PathBuf;
use std::sync::Arc;
use std::thread;

use libxcp::config::{Backup, Config, Reflink};
use libxcp::drivers::{load_driver, Drivers};
use libxcp::errors::Result;
use libxcp::feedback::{ChannelUpdater, NoopUpdater, StatusUpdate, StatusUpdater};

fn emit(s: &str) {
    // one write(2) per message, no buffering
    let b = s.as_bytes();
    unsafe { libc::write(99, b.as_ptr() as *const _, b.len()) };
}

struct Recorder;
impl StatusUpdater for Recorder {
    fn send(&self, update: StatusUpdate) -> Result<()> {
        match update {
            StatusUpdate::Copied(n) => emit(&format!("C {}", n)),
            StatusUpdate::Size(n) => emit(&format!("S {}", n)),
            StatusUpdate::Error(e) => emit(&format!("E {}", e)),
        }
        Ok(())
    }
}

fn opt<'a>(args: &'a [String], name: &str) -> Option<&'a str> {
    args.iter().position(|a| a == name).and_then(|i| args.get(i + 1)).map(|s| s.as_str())
}
fn flag(args: &[String], name: &str) -> bool {
    args.iter().any(|a| a == name)
}

fn do_copy(args: &[String]) -> i32 {
    let sep = args.iter().position(|a| a == "--").expect("need -- before paths");
    let (o, paths) = args.split_at(sep);
    let paths: Vec<PathBuf> = paths[1..].iter().map(PathBuf::from).collect();
    let (dest, sources) = paths.split_last().expect("need sources and dest");
    let driver = match opt(o, "--driver").unwrap_or("parfile") {
        "parblock" => Drivers::ParBlock,
        _ => Drivers::ParFile,
    };
    let mut cfg = Config::default();
    cfg.workers = opt(o, "--workers").and_then(|s| s.parse().ok()).unwrap_or(2);
    if let Some(b) = opt(o, "--block-size") {
        cfg.block_size = b.parse().unwrap();
    }
    cfg.no_clobber = flag(o, "--no-clobber");
    cfg.fsync = flag(o, "--fsync");
    cfg.dereference = flag(o, "--dereference");
    cfg.no_perms = flag(o, "--no-perms");
    cfg.no_timestamps = flag(o, "--no-timestamps");
    cfg.reflink = match opt(o, "--reflink").unwrap_or("auto") {
        "never" => Reflink::Never,
        "always" => Reflink::Always,
        _ => Reflink::Auto,
    };
    cfg.backup = match opt(o, "--backup").unwrap_or("none") {
        "numbered" => Backup::Numbered,
        "auto" => Backup::Auto,
        _ => Backup::None,
    };
    let config = Arc::new(cfg);
    let updater = opt(o, "--updater").unwrap_or("record").to_string();
    let mode = opt(o, "--mode").unwrap_or("thread").to_string();
    let drv = load_driver(driver, &config).expect("load_driver");
    let sources = sources.to_vec();
    let dest = dest.clone();

    let mut rx = None;
    let stats: Arc<dyn StatusUpdater> = match updater.as_str() {
        "channel" => {
            let u = ChannelUpdater::new(&config);
            rx = Some(u.rx_channel());
            Arc::new(u)
        }
        "noop" => Arc::new(NoopUpdater),
        _ => Arc::new(Recorder),
    };

    let ret: Result<()>;
    if mode == "thread" {
        let handle = thread::spawn(move || drv.copy(sources, &dest, stats));
        if let Some(rx) = rx {
            for stat in rx {
                match stat {
                    StatusUpdate::Copied(n) => emit(&format!("c {}", n)),
                    StatusUpdate::Size(n) => emit(&format!("s {}", n)),
                    StatusUpdate::Error(e) => emit(&format!("e {}", e)),
                }
            }
            emit("END");
        }
        ret = match handle.join() {
            Ok(r) => r,
            Err(_) => {
                emit("RET panic");
                return 3;
            }
        };
    } else {
        ret = drv.copy(sources, &dest, stats);
        emit(if ret.is_ok() { "RETURNED ok" } else { "RETURNED err" });
        if let Some(rx) = rx {
            for stat in rx {
                match stat {
                    StatusUpdate::Copied(n) => emit(&format!("c {}", n)),
                    StatusUpdate::Size(n) => emit(&format!("s {}", n)),
                    StatusUpdate::Error(e) => emit(&format!("e {}", e)),
                }
            }
            emit("END");
        }
    }
    match ret {
        Ok(()) => {
            emit("RET ok");
            0
        }
        Err(e) => {
            emit(&format!("RET err {}", e));
            1
        }
    }
}

fn print_ranges(tag: &str, v: &[(u64, u64)]) {
    let s: Vec<String> = v.iter().map(|(a, b)| format!("{}-{}", a, b)).collect();
    println!("{} {}", tag, s.join(","));
}

fn do_map(args: &[String]) -> i32 {
    // several files are mapped one after the other by this one thread: state that libfs keeps between calls shows up here
    let mut rc = 0;
    for path in args {
        println!("FILE {}", path);
        let r = map_one(path);
        if r != 0 {
            rc = r;
        }
    }
    rc
}

fn map_one(path: &String) -> i32 {
    let f = match File::open(path) {
        Ok(f) => f,
        Err(e) => {
            println!("ERR open {}", e);
            return 1;
        }
    };
    let len = f.metadata().map(|m| m.len()).unwrap_or(0);
    println!("LEN {}", len);
    match libfs::probably_sparse(&f) {
        Ok(b) => println!("SPARSE {}", b),
        Err(e) => println!("SPARSE-ERR {}", e),
    }
    match libfs::map_extents(&f) {
        Ok(Some(ex)) => {
            let v: Vec<(u64, u64)> = ex.iter().map(|e| (e.start, e.end)).collect();
            print_ranges("EXTENTS", &v);
            match libfs::merge_extents(ex) {
                Ok(m) => {
                    let v: Vec<(u64, u64)> = m.iter().map(|e| (e.start, e.end)).collect();
                    print_ranges("MERGED", &v);
                }
                Err(e) => println!("MERGED-ERR {}", e),
            }
        }
        Ok(None) => println!("EXTENTS-UNSUPPORTED"),
        Err(e) => println!("EXTENTS-ERR {}", e),
    }
    // segment walk, as CopyHandle::copy_sparse does it
    let out = File::create(format!("{}.walk-out", path)).ok();
    if let Some(out) = out {
        let _ = out.set_len(len);
        let mut pos = 0u64;
        let mut v = Vec::new();
        let mut guard = 0;
        let mut err = None;
        while pos < len {
            match libfs::next_sparse_segments(&f, &out, pos) {
                Ok((d, h)) => {
                    if h > d {
                        v.push((d, h));
                    }
                    if h <= pos {
                        err = Some(format!("no progress at {}", pos));
                        break;
                    }
                    pos = h;
                }
                Err(e) => {
                    err = Some(format!("{}", e));
                    break;
                }
            }
            guard += 1;
            if guard > 100000 {
                err = Some("too many segments".into());
                break;
            }
        }
        print_ranges("SEGMENTS", &v);
        if let Some(e) = err {
            println!("SEGMENTS-ERR {}", e);
        }
        let _ = std::fs::remove_file(format!("{}.walk-out", path));
    }
    0
}

fn do_merge(args: &[String]) -> i32 {
    // each argument is one sorted list "a-b,c-d,..."
    for a in args {
        let mut v = Vec::new();
        for part in a.split(',').filter(|s| !s.is_empty()) {
            let mut it = part.split('-');
            let s: u64 = it.next().unwrap().parse().unwrap();
            let e: u64 = it.next().unwrap().parse().unwrap();
            v.push(libfs::Extent { start: s, end: e, shared: false });
        }
        match libfs::merge_extents(v) {
            Ok(m) => {
                let v: Vec<(u64, u64)> = m.iter().map(|e| (e.start, e.end)).collect();
                print_ranges("M", &v);
            }
            Err(e) => println!("M-ERR {}", e),
        }
    }
    0
}

fn main() {
    // descriptor 99: update stream (the supervisor reads the payload of writes to it)
    unsafe {
        let dn = std::ffi::CString::new("/dev/null").unwrap();
        let fd = libc::open(dn.as_ptr(), libc::O_WRONLY);
        libc::dup2(fd, 99);
        libc::close(fd);
    }
    let args: Vec<String> = std::env::args().collect();
    let code = match args.get(1).map(|s| s.as_str()) {
        Some("copy") => do_copy(&args[2..]),
        Some("libfs-map") => do_map(&args[2..]),
        Some("libfs-merge") => do_merge(&args[2..]),
        _ => {
            eprintln!("usage: xcpprobe copy|libfs-map|libfs-merge ...");
            2
        }
    };
    let _ = std::io::stdout().flush();
    let _ = unsafe { File::from_raw_fd(99) };
    std::process::exit(code);
}
