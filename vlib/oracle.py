"""Oracles over one simulated run: whole-sandbox snapshot comparison against the model's verdict, and
checks over the recorded event log.  Every finding carries the property it belongs to and a *class* computed
from features of the scenario (never from a seed), which is what known_findings.json refers to."""
import posixpath
from .model import Tree

DATA_CALLS = ("copy_file_range", "pwrite64", "write", "writev", "ftruncate", "fallocate", "sendfile", "truncate")
META_CALLS = ("fchmod", "fchown", "utimensat", "fsetxattr", "fchmodat", "fchownat", "chmod", "chown", "setxattr", "lsetxattr")


class Finding:
    __slots__ = ("prop", "cls", "path", "detail")

    def __init__(self, prop, cls, path, detail):
        self.prop, self.cls, self.path, self.detail = prop, cls, path, detail

    def key(self):
        return (self.prop, self.cls)

    def to_json(self):
        return {"property": self.prop, "class": self.cls, "path": self.path, "detail": self.detail}

    def __repr__(self):
        return "%s/%s %s: %s" % (self.prop, self.cls, self.path, self.detail)


# Verdicts that rest on the ABSENCE of an event (or on sums over all events) are only sound on a complete event log.  The supervisor
# keeps at most a fixed number of records per run; when it had to drop records these classes are not judged for that run.
NEEDS_COMPLETE_LOG = (("C18", ""), ("C12", "copied-"), ("C12", "size-"), ("C12", "no-return"), ("C12", "channel-not"), ("C12", "incomplete-"),
                      ("C15", "always-"), ("C04", "silent-failure:fsync"))


def drop_unsound_on_truncated_log(res, findings):
    if not res.get("stats", {}).get("events_dropped"):
        return findings
    return [f for f in findings if not any(f.prop == p and f.cls.startswith(c) for p, c in NEEDS_COMPLETE_LOG)]


def succeeded(res):
    o = res["outcome"]
    return o["kind"] == "exit" and o["code"] == 0


def failed_cleanly(res):
    o = res["outcome"]
    return (o["kind"] == "exit" and o["code"] != 0) or o["kind"] == "signal"


def termination_findings(res):
    o = res["outcome"]
    if o["kind"] == "deadlock":
        cls = "deadlock"
        if ":never" in str(o.get("threads")):
            # a thread sits in an open(2) of a FIFO without a peer: blocks forever in a real kernel
            cls += ":fifo-open"
            ev = next((e for e in res.get("events", []) if e.get("f") == "fifo-open"), None)
            if ev is not None:
                obj = ev.get("o")
                pre_src = any(x.get("o") == obj and x["k"] == "p" and not x["p"].startswith("dst") for x in res.get("pre", []))
                cls += ":source" if pre_src else ":dest"
        return [Finding("C07", cls, "", "no thread can run: %s" % o.get("threads"))]
    if o["kind"] == "budget":
        return [Finding("C07", "step-budget", "", "run exceeded its step budget (%s steps)" % res["stats"]["steps"])]
    if o["kind"] == "spin":
        return [Finding("C07", "cpu-spin", "", "a thread spins in user space without making a system call")]
    return []


ASPECTS = ("k", "mode", "uid", "gid", "size", "h", "to", "major", "minor", "xattrs", "mtime")


def entry_diff(a, b, skip=()):
    out = []
    for k in ASPECTS:
        if k in skip:
            continue
        if a.get(k) != b.get(k):
            out.append(k)
    return out


def data_contained(dst_segs, src_segs, size, min_hole=1 << 20):
    """no destination data page lies inside a source hole of at least min_hole bytes (the property speaks of
    holes of at least 1 MiB; smaller gaps are file-system rounding)"""
    rs = sorted((a & ~4095, (b + 4095) & ~4095) for a, b in (src_segs or []))
    holes = []
    pos = 0
    for x, y in rs:
        if x - pos >= min_hole:
            holes.append((pos, x))
        pos = max(pos, y)
    if size - pos >= min_hole:
        holes.append((pos, size))
    for a, b in dst_segs or []:
        for x, y in holes:
            lo, hi = max(a, x), min(b, y)
            if lo < hi:
                return False, lo
    return True, None


def check_tree(res, verdict, inv, umask=0o022, t_start_ns=None, fault_exempt=(), sparse_ok=True, special_ok=True):
    """Compare the post-state with the verdict.  Returns the list of findings (all properties)."""
    pre = Tree(res["pre"])
    post = Tree(res["post"])
    fl = inv.get("flags", {})
    finds = []
    ok = succeeded(res)
    okind = res["outcome"]["kind"]
    dest_n = posixpath.normpath(inv["dest"]) if inv.get("dest") else None
    if dest_n and dest_n.startswith("$ROOT"):
        dest_n = dest_n[5:].lstrip("/") or "."
    feat = features(inv, verdict, pre)

    # --- rule 1: sources and bystanders are never modified (any outcome) ---------------------------
    partial = verdict.kind == "undefined" and verdict.why == "two-sources-one-target"
    mapped_paths = set(verdict.expect.keys()) if (verdict.kind in ("expect", "mustfail") or partial) else set()
    mapped_objs = set()
    for p in mapped_paths:
        e = pre.get(p)
        if e is not None and e["k"] != "d":
            mapped_objs.add(e["o"])
    source_paths = set()
    for (phys, rel, k, tgt) in verdict.selected:
        source_paths.add(phys)
    # the invocation's own source arguments are sources whatever the verdict (a rejected self-copy selects nothing)
    from .model import norm as _norm
    if not fl.get("glob"):
        for sp in inv.get("sources", []):
            try:
                phys, ent = pre.resolve(_norm(sp), follow_last=False)
            except Exception:
                phys, ent = None, None
            if phys is not None and ent is not None:
                for q in pre.subtree(phys):
                    source_paths.add(q)
    source_objs = set(pre.get(p)["o"] for p in source_paths if pre.get(p) is not None and pre.get(p)["k"] != "d")
    parents_touched = set()
    for p in mapped_paths:
        parents_touched.add(posixpath.dirname(p) or ".")
    for p, e in pre.e.items():
        is_source = p in source_paths or e["o"] in source_objs
        if p in mapped_paths and not is_source:
            continue
        if e["o"] in mapped_objs and not is_source and e["k"] != "d":
            continue  # the same inode is reachable through a destination path (hard link): overwriting it is legal
        q = post.get(p)
        under_dest = dest_n is not None and (p == dest_n or p.startswith(dest_n + "/")) and not is_source
        if verdict.kind == "undefined" and under_dest and not (partial and p not in mapped_paths and e["k"] != "d"):
            continue  # outside the model domain: nothing is claimed about the destination (sources and bystanders still are)
        if under_dest:
            prop, cls = ("C08", "existing-entry-altered") if fl.get("n") else ("C02", "unmapped-entry-altered")
        else:
            prop, cls = "C03", ("source-modified" if is_source else "bystander-modified")
        if q is None:
            if p in mapped_paths:
                continue
            finds.append(Finding(prop, cls + feat_suffix(feat, p, pre, verdict), p, "entry vanished"))
            if verdict.kind == "reject":
                finds.append(Finding("C16", "rejected-but-changed:" + verdict.why, p, "entry vanished although the invocation is invalid"))
            continue
        skip = ()
        if e["k"] == "d" and (p in parents_touched or p in mapped_paths):
            skip = ("mtime",)
        d = entry_diff(e, q, skip)
        if d:
            finds.append(Finding(prop, cls + feat_suffix(feat, p, pre, verdict), p,
                                 "changed: %s (%s -> %s)" % (",".join(d), {k: e.get(k) for k in d}, {k: q.get(k) for k in d})))
            if verdict.kind == "reject":
                finds.append(Finding("C16", "rejected-but-changed:" + verdict.why, p, "changed although the invocation is invalid: %s" % ",".join(d)))

    # --- verdict specific -------------------------------------------------------------------------
    if verdict.kind == "reject":
        if ok:
            finds.append(Finding("C16", "accepted:" + verdict.why, "", "exit 0 for an invocation that cannot be honoured (%s)" % verdict.why))
        for p in post.e:
            if p not in pre.e:
                finds.append(Finding("C16", "rejected-but-created:" + verdict.why, p, "created although the invocation is invalid"))
        if okind == "exit":
            for ev in res.get("events", []):
                if ev.get("site") is not None and is_mutating(ev) and not str(ev.get("r", "")).startswith("-"):
                    finds.append(Finding("C16", "rejected-but-mutated:" + verdict.why, ev.get("p") or ev.get("fdp") or "",
                                         "mutating call %s issued for an invalid invocation" % ev["c"]))
                    break
        return finds
    if verdict.kind == "mustfail":
        if ok:
            prop = {"noclobber-collision": "C08", "deref-dangling": "C13", "deref-cycle": "C13", "unsupported-kind": "C14",
                    "reflink-always-unsupported": "C15"}.get(verdict.why, "C04")
            finds.append(Finding(prop, "exit0:" + verdict.why, "", "exit 0 although the run must fail (%s)" % verdict.why))
        return finds
    if verdict.kind != "expect" or not ok:
        return finds

    # --- exit 0: the sandbox must equal T -----------------------------------------------------------
    for p, spec in verdict.expect.items():
        q = post.get(p)
        k = spec["k"]
        suffix = feat_suffix(feat, p, pre, verdict)
        if "same_as_pre" in spec:
            old = spec["same_as_pre"]
            if q is None:
                finds.append(Finding("C09", "backup-missing" + suffix, p, "expected backup of the previous destination file is absent"))
            else:
                d = entry_diff(old, q)
                if d:
                    finds.append(Finding("C09", "backup-differs" + suffix, p, "backup differs from the previous destination: %s" % ",".join(d)))
            continue
        if q is None:
            prop = "C14" if k in ("p", "s", "c") else "C02"
            finds.append(Finding(prop, "missing-" + k + suffix, p, "selected %s entry %s has no destination entry" % (k, spec.get("src"))))
            continue
        if q["k"] != k:
            if fl.get("L") and q["k"] == "l":
                prop = "C13"
            else:
                prop = "C14" if k in ("p", "s", "c") else "C02"
            finds.append(Finding(prop, "kind-%s-as-%s" % (k, q["k"]) + suffix, p, "source kind %s, destination kind %s" % (k, q["k"])))
            continue
        if k == "f":
            if q.get("size") != spec.get("size") or q.get("h") != spec.get("h"):
                finds.append(Finding("C01", "content" + suffix, p,
                                     "size/hash %s/%s, source %s/%s" % (q.get("size"), q.get("h"), spec.get("size"), spec.get("h"))))
            if "mode" not in fault_exempt and spec.get("mode") is not None and q["mode"] != spec["mode"] and q["mode"] != spec.get("mode_alt"):
                finds.append(Finding("C10", "mode" + suffix + mode_suffix(spec, fl), p, "mode %o, expected %o" % (q["mode"], spec["mode"])))
            if spec.get("mtime") is not None and q["mtime"] != spec["mtime"]:
                finds.append(Finding("C10", "mtime" + suffix, p, "mtime %s, expected %s" % (q["mtime"], spec["mtime"])))
            if spec.get("not_mtime") is not None:
                if q["mtime"] == spec["not_mtime"]:
                    finds.append(Finding("C10", "mtime-transferred" + suffix, p, "--no-timestamps but the source mtime was applied"))
                elif t_start_ns is not None and q["mtime"] < t_start_ns - 2_000_000_000:
                    finds.append(Finding("C10", "mtime-not-current" + suffix, p, "--no-timestamps but mtime %s predates the run" % q["mtime"]))
            if spec.get("xattrs") is not None and "xattr" not in fault_exempt:
                have = q.get("xattrs", {})
                for n, v in spec["xattrs"].items():
                    if n.startswith("user.") and have.get(n) != v:
                        finds.append(Finding("C10", "xattr" + suffix, p, "xattr %s is %s, expected %s" % (n, have.get(n), v)))
                        break
            if "uid" in spec and "owner" not in fault_exempt:
                if (q["uid"], q["gid"]) != (spec["uid"], spec["gid"]):
                    finds.append(Finding("C10", "owner" + suffix, p, "owner %s:%s expected %s:%s" % (q["uid"], q["gid"], spec["uid"], spec["gid"])))
            if sparse_ok and spec.get("segs") is not None and q.get("segs") is not None:
                nruns = len(spec["segs"])
                if q["blocks"] * 512 > spec["src_blocks"] * 512 + 4096 * (nruns + 1):
                    finds.append(Finding("C11", "holes-materialised" + suffix, p,
                                         "destination allocates %d bytes, source %d (%d data runs)" % (q["blocks"] * 512, spec["src_blocks"] * 512, nruns)))
                else:
                    okc, pos = data_contained(q["segs"], spec["segs"], spec.get("size") or 0)
                    if not okc:
                        finds.append(Finding("C11", "data-in-hole" + suffix, p, "destination has an allocated page at %d where the source has a hole" % pos))
        elif k == "l":
            if q.get("to") != spec.get("to"):
                finds.append(Finding("C02", "link-text" + suffix, p, "link text %r, expected %r" % (q.get("to"), spec.get("to"))))
        elif k == "c":
            if (q.get("major"), q.get("minor")) != (spec.get("major"), spec.get("minor")):
                finds.append(Finding("C14", "rdev" + suffix, p, "device %s:%s, expected %s:%s" % (q.get("major"), q.get("minor"), spec.get("major"), spec.get("minor"))))
            if q["mode"] != spec["mode"]:
                finds.append(Finding("C14", "node-mode" + suffix, p, "mode %o, expected %o" % (q["mode"], spec["mode"])))
        elif k in ("p", "s"):
            if q["mode"] != spec["mode"]:
                finds.append(Finding("C14", "node-mode" + suffix, p, "mode %o, expected %o" % (q["mode"], spec["mode"])))
            pe = pre.get(p)
            if pe is not None and not fl.get("n") and pe["o"] == q["o"]:
                finds.append(Finding("C14", "node-not-replaced" + suffix, p, "existing entry was not replaced"))
    for p in post.e:
        if p not in pre.e and p not in verdict.expect:
            finds.append(Finding("C02", "extra-entry" + feat_suffix(feat, p, pre, verdict), p, "created but no source entry maps here (%s)" % post.get(p)["k"]))
    return finds


def mode_suffix(spec, fl):
    return ":ownership" if fl.get("ownership") else ""


def features(inv, verdict, pre):
    return {}


def feat_suffix(feat, p, pre, verdict):
    """scenario features that name a known defect class; kept deliberately few and structural"""
    e = pre.get(p)
    out = ""
    if e is not None and e["k"] == "l" and p in verdict.expect:
        out += ":dest-is-symlink"
    return out


def is_mutating(ev):
    c = ev["c"]
    if c in DATA_CALLS or c in META_CALLS:
        return True
    if c in ("mkdir", "mkdirat", "mknod", "mknodat", "rename", "renameat", "renameat2", "unlink", "unlinkat", "rmdir", "symlink",
             "symlinkat", "link", "linkat", "fremovexattr", "removexattr", "lremovexattr"):
        return True
    if c in ("openat", "open", "creat"):
        fl = ev.get("flags", 0)
        return bool(fl & (0o100 | 0o1000 | 0o1 | 0o2))  # O_CREAT|O_TRUNC|O_WRONLY|O_RDWR
    if c == "ioctl" and ev.get("req") in ("FICLONE", "FICLONERANGE"):
        return True
    return False


# ----------------------------------------------------------------------------------- event-log oracles

def dest_data_events(res):
    """per destination object: ordered list of (seq, call, ok, ev) for data-writing, metadata and sync calls"""
    per = {}
    for ev in res.get("events", []):
        c = ev["c"]
        o = ev.get("fdo")
        if o is None:
            continue
        if c in DATA_CALLS or c in META_CALLS or c in ("fsync", "fdatasync") or (c == "ioctl" and ev.get("req") == "FICLONE"):
            per.setdefault(o, []).append(ev)
    return per


def check_metadata_after_data(res):
    """C06 clause: a file's metadata is applied only after its last byte has been written"""
    finds = []
    for o, evs in dest_data_events(res).items():
        meta_seen = None
        for ev in evs:
            c = ev["c"]
            okr = not str(ev.get("r")).startswith("-")
            if c in META_CALLS and okr:
                meta_seen = ev
            elif (c in DATA_CALLS or c == "ioctl") and okr and meta_seen is not None and c != "read":
                if c in ("write", "writev") and not ev.get("fdp"):
                    continue
                finds.append(Finding("C06", "data-after-metadata", ev.get("fdp", ""),
                                     "%s (event %d) follows %s (event %d) on the same file" % (c, ev["i"], meta_seen["c"], meta_seen["i"])))
                break
    return finds


def check_parent_before_child(res):
    """C06 clause: a directory exists before anything is created inside it"""
    finds = []
    for ev in res.get("events", []):
        c = ev["c"]
        if ev.get("r") != "-ENOENT":
            continue
        creating = c in ("symlink", "symlinkat", "mknod", "mknodat") or (c in ("openat", "open") and ev.get("flags", 0) & 0o100)
        if creating:
            finds.append(Finding("C06", "child-before-parent", ev.get("p", ""), "%s failed with ENOENT: the parent directory did not exist yet (event %d)" % (c, ev["i"])))
    return finds


def check_fsync(res, dest_objs):
    """C18: for every destination file object an fsync/fdatasync follows its last data-writing call"""
    finds = []
    per = dest_data_events(res)
    for o, path in dest_objs.items():
        evs = per.get(o, [])
        last_data = None
        last_sync = None
        for ev in evs:
            c = ev["c"]
            okr = not str(ev.get("r")).startswith("-")
            if not okr:
                continue
            if c in DATA_CALLS or (c == "ioctl" and ev.get("req") == "FICLONE"):
                last_data = ev["i"]
            elif c in ("fsync", "fdatasync"):
                last_sync = ev["i"]
        if last_sync is None:
            finds.append(Finding("C18", "no-fsync", path, "no successful fsync of the destination file"))
        elif last_data is not None and last_sync < last_data:
            finds.append(Finding("C18", "write-after-fsync", path, "data written (event %d) after the last fsync (event %d)" % (last_data, last_sync)))
    return finds
