"""C18 — --fsync flushes every destination file after its last write."""
from .. import gen, oracle
from ..scheck import SCheck


class C18(SCheck):
    prop = "C18"
    level = "exploration"
    default_seed = 18018
    ustep_rate = 0.35
    N = {"quick": 200, "thorough": 6000}
    K = {"quick": 3, "thorough": 6}
    technique = "deterministic simulation: seeded schedules of block workers; oracle on the supervisor's global event order (fsync after the last data-writing call per destination inode)"
    rule = ("case = tree with multi-block files, --fsync, both drivers, workers 1..16, optional kernel per-call limit (more write calls), "
            "copy_file_range unavailable (pread/pwrite path) or emulated clone; oracle per destination inode: a successful fsync/fdatasync "
            "follows the last successful copy_file_range/pwrite/write/ftruncate/fallocate/FICLONE and precedes exit; non-trivial = some file "
            "was written by >= 2 data calls; distinct by signature")
    assumptions = ["crash = process-level ordering only; power-loss durability is not modelled"]

    def gen_case(self, r, idx, tier):
        driver = r.choice(["parfile", "parblock", "parblock"])
        workers = r.choice([1, 2, 3, 4, 8, 16])
        bs = r.choice([4096, 65536, 1000])
        ops = [gen.d_op("src")]
        for i in range(r.randrange(1, 5)):
            size = bs * r.randrange(0, 7) + r.choice([0, 1, bs - 1])
            if r.random() < 0.2:
                ln, runs = gen.sparse_layout(r, max_runs=3)
                ops.append(gen.f_op("src/s%d" % i, ln, runs=runs))
            else:
                ops.append(gen.f_op("src/f%d" % i, min(size, 300_000), pat=r.randrange(1, 1 << 30)))
        flags = {"r": True, "fsync": True}
        if r.random() < 0.2:
            flags["reflink"] = "never"
        gen.swarm_flags(r, flags, allow=("no_perms", "no_timestamps", "ownership", "no_progress"), p=0.15)
        kernel = {}
        c = r.random()
        if c < 0.2:
            kernel["max_io"] = r.choice([4096, 1000, 65536])
        elif c < 0.35:
            kernel["cfr"] = r.choice(["ENOSYS", "EXDEV"])
        elif c < 0.5:
            kernel["ficlone"] = "emulate"
        if r.random() < 0.4:
            kernel["fiemap"] = "emulate"
        inv = gen.mk_inv(["src"], "dst", driver=driver, workers=workers, block_size=bs, **flags)
        return {"setup": ops, "steps": [{"inv": inv}], "kernel": kernel, "max_events": 300000}

    def evaluate(self, res, verdict, case, step_i, t0, plan):
        f = super().evaluate(res, verdict, case, step_i, t0, plan)
        if oracle.succeeded(res) and verdict is not None and verdict.kind == "expect":
            objs = {e["o"]: e["p"] for e in res["post"] if e["k"] == "f" and e["p"] in verdict.expect}
            f += oracle.check_fsync(res, objs)
        return f

    def is_nontrivial(self, res, verdict, case):
        per = oracle.dest_data_events(res)
        return any(sum(1 for e in evs if e["c"] in ("copy_file_range", "pwrite64", "write")) >= 2 for evs in per.values())


CHECK = C18
