"""C09 — numbered backups never lose a version, for any name, history or kill point."""
import re, random
from .. import gen, oracle, campaign
from ..scheck import SCheck
from ..campaign import run_step, summarize
from ..oracle import Finding
from ..model import pct

BASES = ["f", "f.txt", "f.txt.bak", "f.~3~", "a b", "été", "x.tar.gz", "~1~", "n.~x~"]
BAK_RX = re.compile(r"\.~\d+~$")


class C09(SCheck):
    prop = "C09"
    level = "fault_enumeration"
    default_seed = 9009
    N = {"quick": 110, "thorough": 4000}
    K = {"quick": 1, "thorough": 2}
    KILLS = {"quick": 10, "thorough": 400}
    technique = "deterministic simulation of histories (2-6 invocations, model stepped alongside) plus kill enumeration (SIGKILL before each system call of an overwriting run) and stepped schedules on multi-directory auto-mode cases"
    rule = ("case = destination with files whose names are plain, prefix-related (f, f.txt, f.txt.bak), backup-looking (f.~3~), with spaces/"
            "unicode/non-UTF-8 bytes, pre-existing backups <name>.~N~ with gaps, leading zeros and numbers up to 2^63-1; history of 2-6 copies "
            "with changing content and backup mode in {none, auto, numbered}; after every step the directory listing and contents must equal "
            "the backup model; then the last (overwriting) step is re-run with SIGKILL at enumerated scheduling points (quick: sample, "
            "thorough: all): the previous content must survive under the original or a backup name and earlier backups stay intact; "
            "non-trivial = the step overwrote an existing file in numbered/auto mode; distinct by (case, step, signature)")
    assumptions = ["a kill inside a data call is approximated by call boundaries (metadata calls are atomic in the kernel)"]

    def gen_plans(self, r, case, k):
        if case.get("race_shape"):
            plans = []
            for j in range(16):
                sp = gen.sched_plan(r, ustep=1.0)
                sp["ustep_budget"] = 300
                plans.append({"seed": r.randrange(1 << 48), "sched": sp})
            return plans
        return super().gen_plans(r, case, k)

    def gen_case(self, r, idx, tier):
        if idx % 11 == 6:
            # race shape: several workers decide about backups in *different* destination directories at the same time (auto mode:
            # a directory listing per file), every schedule with user-space preemption: state shared between those decisions
            # (a listing cache, a counter) is contended here
            nd = r.randrange(5, 10)
            ops = [gen.d_op("src"), gen.d_op("dst"), gen.d_op("dst/src")]
            for d in range(nd):
                ops += [gen.d_op("src/d%d" % d), gen.d_op("dst/src/d%d" % d)]
                for f in range(r.randrange(2, 4)):
                    ops.append(gen.f_op("src/d%d/f%d" % (d, f), r.randrange(1, 3000), pat=r.randrange(1, 1 << 30)))
                    ops.append(gen.f_op("dst/src/d%d/f%d" % (d, f), r.randrange(1, 2000), pat=r.randrange(1, 1 << 30)))
                    if (d + f) % 2 == 0:
                        for n in r.sample([1, 2, 4, 9], r.randrange(1, 3)):
                            ops.append(gen.f_op("dst/src/d%d/f%d.~%d~" % (d, f, n), r.randrange(0, 300), pat=r.randrange(1, 1 << 30)))
            inv = gen.mk_inv(["src"], "dst", driver=r.choice(["parfile", "parfile", "parblock"]), workers=r.choice([2, 4, 8, 16]), block_size=65536, r=True, backup="auto")
            return {"setup": ops, "steps": [{"inv": inv, "edits": []}], "max_events": 300000, "race_shape": True}
        driver, workers, bs = gen.pick_config(r)
        recursive = r.random() < 0.5
        names = r.sample(BASES, r.randrange(1, 4))
        if recursive and r.random() < 0.4:
            names.append(pct(r.choice(gen.BAD_NAMES)))
        ops = [gen.d_op("src"), gen.d_op("dst")]
        base = "dst/src" if recursive else "dst"
        if recursive:
            ops.append(gen.d_op("dst/src"))
        cap = 3000 if bs < 64 else 30000
        zero_names = []
        for n in names:
            ops.append(gen.f_op("src/" + n, gen.boundary_size(r, bs, cap=cap), pat=r.randrange(1, 1 << 30)))
            if r.random() < 0.8:
                ops.append(gen.f_op(base + "/" + n, r.randrange(0, 3000), pat=r.randrange(1, 1 << 30)))
            # pre-existing backups
            only_zero = r.random() < 0.12  # the only backup present carries the number 0 (auto mode must still notice it)
            if only_zero:
                zero_names.append(n)
                ops.append(gen.f_op("%s/%s.~%s~" % (base, n, r.choice(["0", "0", "00"])), r.randrange(0, 500), pat=r.randrange(1, 1 << 30)))
            for _ in range(0 if only_zero else r.choice([0, 0, 1, 2, 3])):
                num = r.choice([0, 0, 1, 2, 3, 7, 9, 10, 99, 123456, 2 ** 31, 2 ** 63 - 2])
                txt = str(num) if r.random() < 0.8 else "%04d" % num
                if num == 0 and r.random() < 0.3:
                    txt = "00"
                ops.append(gen.f_op("%s/%s.~%s~" % (base, n, txt), r.randrange(0, 500), pat=r.randrange(1, 1 << 30)))
            # prefix-related neighbours that are NOT backups of n
            if r.random() < 0.4:
                ops.append(gen.f_op("%s/%s%s.~%d~" % (base, n, r.choice([".bak", "x", ".old", "~"]), r.choice([5, 8, 50])), 9, pat=3))
            if r.random() < 0.2:
                ops.append(gen.f_op("%s/%s.~~" % (base, n), 4, pat=3))
                ops.append(gen.f_op("%s/%s.~1a~" % (base, n), 4, pat=3))
        nsteps = r.choice([2, 2, 3, 4, 6])
        steps = []
        for j in range(nsteps):
            mode = r.choice(["numbered", "numbered", "auto", "none"])
            if zero_names and j == 0:
                mode = "auto"
            edits = []
            if j > 0:
                for n in names:
                    if r.random() < 0.8:
                        edits.append(gen.f_op("src/" + n, gen.boundary_size(r, bs, cap=cap), pat=r.randrange(1, 1 << 30)))
            if recursive:
                inv = gen.mk_inv(["src"], "dst", driver=driver, workers=workers, block_size=bs, r=True, backup=mode)
            else:
                utf = [n for n in names if "%" not in n or n == "x%y"]
                inv = gen.mk_inv(["src/" + n for n in utf], "dst", driver=driver, workers=workers, block_size=bs, backup=mode)
            steps.append({"inv": inv, "edits": edits})
        return {"setup": ops, "steps": steps, "max_events": 200000}

    def evaluate(self, res, verdict, case, step_i, t0, plan):
        f = super().evaluate(res, verdict, case, step_i, t0, plan)
        for x in f:
            # an existing backup that was altered or removed is this property's business
            if x.prop in ("C02", "C03") and BAK_RX.search(x.path or ""):
                x.prop, x.cls = "C09", "existing-backup-altered"
        return f

    def is_nontrivial(self, res, verdict, case):
        return verdict is not None and any("same_as_pre" in s for s in verdict.expect.values())

    def run_item(self, sim, item):
        rec = super().run_item(sim, item)
        case = item["case"]
        last = len(case["steps"]) - 1
        inv = case["steps"][last]["inv"]
        nk = item.get("kills", 0)
        if nk <= 0 and item.get("only_kill") is None:
            return rec
        plan = item["plans"][0]

        def prefix():
            for si in range(last):
                run_step(sim, case, si, plan, "none")
        prefix()
        res, verdict, t0 = run_step(sim, case, last, plan, "sandbox")
        if verdict is None or verdict.kind != "expect" or not any("same_as_pre" in s for s in verdict.expect.values()):
            return rec
        nsites = res["stats"]["sites"]
        r = random.Random(item.get("kill_seed", 1))
        sites = list(range(nsites))
        if item.get("only_kill") is not None:
            sites = [item["only_kill"]]
        elif len(sites) > nk:
            # bias towards the mutating calls, where in-flight state exists
            mut = [e["site"] for e in res["events"] if e.get("site") is not None and oracle.is_mutating(e)]
            near = sorted(set(s + d for s in mut for d in (0, 1) if 0 <= s + d < nsites))
            r.shuffle(near)
            rest = [s for s in sites if s not in near]
            r.shuffle(rest)
            sites = (near + rest)[:nk]
        for k in sorted(sites):
            p2 = dict(plan, kill_at=k)
            prefix()
            res2, verdict2, t2 = run_step(sim, case, last, p2, "sandbox")
            f2 = oracle.termination_findings(res2)
            if verdict2 is not None:
                tf = oracle.check_tree(res2, verdict2, inv, case.get("umask", 0o022), t2)
                for x in tf:
                    if x.prop in ("C02", "C03") and BAK_RX.search(x.path or ""):
                        x.prop, x.cls = "C09", "existing-backup-altered:kill"
                f2 += tf
                f2 += self.survival(res2, verdict2)
            rec["runs"].append(summarize(res2, f2, p2, {"nontrivial": res2["outcome"]["kind"] == "killed", "step": last, "kill": k}))
        return rec

    def survival(self, res, verdict):
        """after a kill: the previous content of every overwritten file still exists under the original or a backup name"""
        out = []
        post = {e["p"]: e for e in res["post"]}
        for p, spec in verdict.expect.items():
            if "same_as_pre" not in spec:
                continue
            old = spec["same_as_pre"]
            tgt = spec["moved_from"]
            cands = [tgt] + [q for q in post if q.startswith(tgt + ".~") and BAK_RX.search(q)]
            ok = any(post.get(q) is not None and post[q]["k"] == old["k"] and post[q].get("h") == old.get("h") and post[q].get("size") == old.get("size")
                     and post[q].get("to") == old.get("to") for q in cands)
            if not ok:
                out.append(Finding("C09", "old-version-lost-on-kill", tgt, "after the kill the previous content of %s exists neither under its name nor under a backup name" % tgt))
        return out

    def items(self, tier, seed):
        for it in super().items(tier, seed):
            it["kills"] = self.KILLS[tier]
            it["kill_seed"] = it["plans"][0]["seed"]
            yield it

    def focus(self, item, run):
        import copy
        it = copy.deepcopy(item)
        if run.get("kill") is not None:
            it["only_kill"] = run["kill"]
            it["plans"] = [run["plan"]] if "kill_at" not in run["plan"] else [dict((k, v) for k, v in run["plan"].items() if k != "kill_at")]
        else:
            it["kills"] = 0
        return it

    def minimise(self, sim, item, f, deadline):
        if item.get("only_kill") is not None:
            return item
        it = dict(item, kills=0)
        return super().minimise(sim, it, f, deadline)


CHECK = C09
