"""C04 — no silent failure: a failed step always yields a non-zero exit."""
from .. import gen, oracle
from ..fcheck import FCheck
from ..oracle import Finding


class C04(FCheck):
    prop = "C04"
    level = "fault_enumeration"
    default_seed = 4004
    N = {"quick": 40, "thorough": 700}
    PER_CASE = {"quick": 70, "thorough": 100000}
    PAIRS = {"quick": 0, "thorough": 40}
    kinds = ("errno",)
    technique = "deterministic simulation with single-fault enumeration: errno injected at each visible system call of a recorded schedule"
    rule = ("case = small tree exercising every step class (fresh/overwrite/backup copies, mkdir, symlink, mknod, listing, .gitignore read, "
            "finalisation with/without --no-perms/--no-timestamps/--ownership/--fsync) x driver; baseline run records the fault sites; one "
            "errno from the call's applicable set is injected per re-run at an enumerated site (quick: stratified sample per call class and "
            "errno; thorough: every site x every errno, plus sampled pairs); non-trivial = the fault actually fired; distinct by signature")
    assumptions = ["one fault per run (pairs in thorough)", "errno sets per call class as in DESIGN 2.4", "close() is never failed"]

    def items(self, tier, seed):
        for it in super().items(tier, seed):
            if it["case"].get("race_shape"):
                # a stepped baseline schedule: who finalises a file (a block job, the dispatcher, or the fallback in Drop) is decided by
                # a user-space race; the fault enumeration over that schedule then fails the finalisation calls wherever they ended up
                rr = gen.rng_for(seed, self.prop, it["case_id"], "race-plan")
                sp = gen.sched_plan(rr, ustep=1.0)
                sp["ustep_budget"] = 300
                it["plan"] = {"seed": rr.randrange(1 << 48), "sched": sp}
            yield it

    def candidates(self, events, nsites):
        c = super().candidates(events, nsites)
        if getattr(self, "_only_finalisation", False):
            c = [x for x in c if x["_call"] in ("fchmod", "utimensat", "fsync", "fdatasync", "fchown")]
        return c

    def run_item(self, sim, item):
        self._only_finalisation = bool(item["case"].get("race_shape"))
        try:
            return super().run_item(sim, item)
        finally:
            self._only_finalisation = False

    def gen_case(self, r, idx, tier):
        if idx % 5 == 2:
            # race shape (cf. C06): many files of two or three blocks under parblock, so that the last two holders of a handle finish
            # close together; only the finalisation calls are failed here
            bs = r.choice([4096, 8192])
            ops = [gen.d_op("src")]
            for i in range(r.randrange(8, 14)):
                ops.append(gen.f_op("src/t%02d" % i, bs * r.choice([2, 2, 3]) + r.choice([0, 1]), pat=r.randrange(1, 1 << 30), mode=r.choice([0o640, 0o600, 0o755])))
            flags = {"r": True}
            if r.random() < 0.5:
                flags["fsync"] = True
            inv = gen.mk_inv(["src"], "dst", driver="parblock", workers=r.choice([2, 3, 4, 8]), block_size=bs, **flags)
            return {"setup": ops, "steps": [{"inv": inv}], "max_events": 400000, "race_shape": True}
        driver = r.choice(["parfile", "parblock"])
        bs = r.choice([4096, 65536, 1 << 20])
        ops = gen.small_tree(r, "src", nfiles=r.randrange(1, 5), links=True, specials=r.random() < 0.4,
                             sizes=lambda rr: gen.boundary_size(rr, bs, cap=150_000), bs=bs)
        if bs >= 4096 and r.random() < 0.35:
            ln, runs = gen.sparse_layout(r, style=r.choice(["trail", "lead", "inter", "empty"]), max_runs=3)
            ops.append(gen.f_op("src/sparse", ln, runs=runs))
        flags = {"r": True}
        for k, p in (("fsync", 0.4), ("no_perms", 0.2), ("no_timestamps", 0.2), ("ownership", 0.2)):
            if r.random() < p:
                flags[k] = True
        if r.random() < 0.3:
            flags["reflink"] = r.choice(["never", "auto"])
        mode = r.choice(["fresh", "fresh", "into-dir", "overwrite", "backup", "noclobber"])
        if mode in ("into-dir",):
            ops.append(gen.d_op("dst"))
        if mode in ("overwrite", "backup", "noclobber"):
            # destination populated by an "earlier copy": same names, other content
            ops.append(gen.d_op("dst"))
            ops.append(gen.d_op("dst/src"))
            for op in list(ops):
                if op["op"] == "file" and op["p"].startswith("src/") and op["p"].count("/") == 1:
                    ops.append(gen.f_op("dst/" + op["p"], 100 + r.randrange(0, 5000), pat=r.randrange(1, 1 << 30)))
            if mode == "backup":
                flags["backup"] = "numbered"
            if mode == "noclobber":
                flags["n"] = True
        if r.random() < 0.2:
            ops.append(gen.f_op("src/.gitignore", 6, runs=[]))
            flags["gitignore"] = True
        if mode in ("fresh", "into-dir") and r.random() < 0.35:
            # --dereference: links (to a file, to a directory, through a chain) must be resolved or the run must fail
            ops = [o for o in ops if o["op"] != "symlink"]
            ops += [gen.d_op("out"), gen.f_op("out/tfile", 700, pat=4), gen.d_op("out/tdir"), gen.f_op("out/tdir/in", 30, pat=5),
                    gen.l_op("src/lf", "$ROOT/out/tfile"), gen.l_op("src/ld", "../out/tdir"), gen.l_op("out/c1", "tfile"), gen.l_op("src/lc", "$ROOT/out/c1")]
            flags["L"] = True
        gen.swarm_flags(r, flags, allow=("no_progress",))
        srcs = ["src"]
        if mode == "noclobber":
            # top-level entries given one by one into the existing dst/ (xcp -n refuses an existing directory outright,
            # so the probe of colliding *files* is only reached this way); every second one collides
            ops = [o for o in ops if not o["p"].startswith("dst")]
            ops.append(gen.d_op("dst"))
            tops = [o["p"] for o in ops if o["p"].startswith("src/") and o["p"].count("/") == 1 and o["op"] in ("file", "symlink", "node")]
            srcs = tops or ["src"]
            # exactly one collision: with several, a fault that hides one of them changes nothing
            files = [t for t in tops if any(o["p"] == t and o["op"] == "file" for o in ops)] or tops
            if files:
                t = r.choice(files)
                ops.append(gen.f_op("dst/" + t.split("/", 1)[1], 57, pat=r.randrange(1, 1 << 30)))
        inv = gen.mk_inv(srcs, "dst", driver=driver, workers=r.choice([1, 2, 4]), block_size=bs, **flags)
        kernel = {"fiemap": "emulate"} if r.random() < 0.5 else {}
        return {"setup": ops, "steps": [{"inv": inv, "ignore": {"src": []} if flags.get("gitignore") else None}], "kernel": kernel}

    def evaluate_fault(self, res, verdict, case, t0, plan, base):
        f = super().evaluate_fault(res, verdict, case, t0, plan, base)
        inv = case["steps"][-1]["inv"]
        if oracle.succeeded(res) and inv["flags"].get("fsync") and verdict is not None and verdict.kind == "expect":
            objs = {}
            for e in res["post"]:
                if e["k"] == "f" and e["p"] in verdict.expect and verdict.expect[e["p"]]["k"] == "f" and "same_as_pre" not in verdict.expect[e["p"]]:
                    objs[e["o"]] = e["p"]
            for x in oracle.check_fsync(res, objs):
                f.append(Finding("C18", x.cls, x.path, x.detail))
        return f

    def path_role(self, p):
        import posixpath
        if p.startswith("$ROOT/"):
            p = p[6:]
        p = posixpath.normpath(p)
        if p == "dst":
            return "dest-root"
        if p.startswith("dst/"):
            return "target"
        return "source"

    def retag(self, findings, res, plan, base_keys=()):
        if not oracle.succeeded(res):
            return findings
        # only what the fault caused: findings already present in the fault-free baseline are not C04's
        findings = [f for f in findings if (f.prop, f.cls, f.path) not in base_keys]
        fired = [x for x in res["stats"].get("faults", []) if x.get("fired")]
        if not fired:
            return findings
        inv_dest = None
        names = []
        for x in fired:
            nm = x["fired"]
            ev = next((e for e in res.get("events", []) if e.get("site") == x["site"]), None)
            if ev is not None and ev.get("p") is not None and nm in ("statx", "newfstatat", "stat", "lstat", "access", "faccessat"):
                nm += "@" + self.path_role(ev["p"])
            names.append(nm)
        call = "+".join(sorted(set(names)))
        out = []
        for f in findings:
            if f.prop in ("C01", "C02", "C08", "C09", "C10", "C11", "C13", "C14", "C18") and not (f.prop == "C10" and f.cls.startswith(("xattr", "owner"))):
                out.append(Finding("C04", "silent-failure:" + call, f.path,
                                   "exit 0 although %s failed with %s: %s/%s %s" % (call, ",".join(x["errno"] for x in fired), f.prop, f.cls, f.detail)))
            else:
                out.append(f)
        return out


CHECK = C04
