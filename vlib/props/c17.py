"""C17 — --gitignore copies exactly the entries the root .gitignore does not exclude (git itself is the oracle)."""
import os, shutil, subprocess, tempfile
from .. import gen, oracle, simclient
from ..scheck import SCheck
from ..oracle import Finding

DIRS = ["build", "docs", "src", ".hid", "out", "tmp dir", "a"]
FILES = ["a.o", "a.c", "b.log", "keep.log", "Makefile", "x.tmp", ".env", "notes.txt", "debug", "build", "foo"]
PATS = ["*.o", "*.log", "!keep.log", "build/", "/build", "build", "**/tmp dir/", "docs/*.txt", "/src/*.c", "*.tm?", "# comment", "", "out/",
        "!out/keep.log", "debug", "/docs", "**/a.o", "a/**", "!a/keep.log", ".env", ".hid/", "foo", "/foo", "foo/", "*", "!*.c", "!*/", "sub/**/x.tmp",
        "src/**/*.log", "\\#lit", "tmp dir", "*.txt ", "/a/b/", "b/"]


def git_ignored(entries, gitignore_text):
    """entries: list of (relpath, kind, linktext); returns the set of relpaths git ignores"""
    base = tempfile.mkdtemp(prefix="xcpsim-git.", dir=simclient.SCRATCH)
    try:
        for rel, k, to in entries:
            p = os.path.join(base, rel)
            if k == "d":
                os.makedirs(p, exist_ok=True)
        for rel, k, to in entries:
            p = os.path.join(base, rel)
            if k == "f":
                open(p, "w").close()
            elif k == "l":
                os.symlink(to, p)
        with open(os.path.join(base, ".gitignore"), "w") as f:
            f.write(gitignore_text)
        env = {"PATH": os.environ.get("PATH", "/usr/bin:/bin"), "HOME": base, "GIT_CONFIG_NOSYSTEM": "1", "GIT_CONFIG_GLOBAL": "/dev/null", "LC_ALL": "C"}
        subprocess.run(["git", "init", "-q", base], env=env, check=True, stdout=subprocess.DEVNULL, stderr=subprocess.DEVNULL)
        inp = "\0".join(rel for rel, _, _ in entries) + "\0"
        p = subprocess.run(["git", "-C", base, "check-ignore", "--no-index", "--stdin", "-z"], input=inp.encode(), env=env, stdout=subprocess.PIPE, stderr=subprocess.PIPE)
        if p.returncode not in (0, 1):
            raise RuntimeError("git check-ignore failed: %s" % p.stderr.decode()[-300:])
        out = [x for x in p.stdout.decode().split("\0") if x]
        return set(out)
    finally:
        shutil.rmtree(base, ignore_errors=True)


class C17(SCheck):
    prop = "C17"
    level = "exploration"
    default_seed = 17017
    N = {"quick": 400, "thorough": 6000}
    K = {"quick": 1, "thorough": 2}
    technique = "deterministic simulation (input-driven): generated .gitignore x tree, `git check-ignore --no-index` as the oracle for git's semantics; runs under the supervisor with permuted walk order, short reads of the .gitignore file and one injected errno at stat/open/read/getdents calls on source entries"
    rule = ("case = source tree over a small name vocabulary (so that patterns hit) with nested dirs, hidden files, symlinks to files and dirs; "
            ".gitignore of 1-6 lines drawn from literals, *, ?, **/, trailing /, leading /, ! negation, comments, blank lines, repeated lines; optionally a second source directory without .gitignore; with and without "
            "--gitignore; optional kernel per-call read limit (the file is read through short reads); oracle: set of relative paths in the "
            "destination == set git reports as not ignored (excluded directory => subtree excluded), .gitignore itself and hidden files "
            "present; without the flag nothing is filtered; non-trivial = git ignores at least one entry; distinct by (case, signature).  "
            "Quantified over inputs: the simulator contributes replayability, walk-order permutation, the read clamps and a single-fault pass (one errno at sampled stat/open/read/getdents calls on source entries: the run may fail, it may not copy more)")
    assumptions = ["git 2.39 check-ignore is the reference for git's pattern semantics", ".gitignore exists only at the source root"]

    def gen_case(self, r, idx, tier):
        driver, workers, bs = gen.pick_config(r)
        ents = []
        dirs = [""]
        for i in range(r.randrange(1, 6)):
            parent = r.choice(dirs)
            if parent.count("/") >= 2:
                continue
            name = r.choice(DIRS)
            p = (parent + "/" if parent else "") + name
            if p not in [e[0] for e in ents]:
                ents.append((p, "d", None))
                dirs.append(p)
        for i in range(r.randrange(2, 10)):
            parent = r.choice(dirs)
            name = r.choice(FILES)
            p = (parent + "/" if parent else "") + name
            if p not in [e[0] for e in ents]:
                ents.append((p, "f", None))
        for i in range(r.choice([0, 0, 1, 2])):
            parent = r.choice(dirs)
            name = r.choice(["lnk.o", "build", "ldir", "docs"])
            p = (parent + "/" if parent else "") + name
            if p not in [e[0] for e in ents]:
                tgt = r.choice([d for d in dirs if d] or ["nowhere"]) if r.random() < 0.6 else r.choice(["a.c", "nowhere"])
                rel_up = "../" * p.count("/")
                ents.append((p, "l", rel_up + tgt))
        lines = [r.choice(PATS) for _ in range(r.randrange(1, 7))]
        if len(lines) >= 2 and r.random() < 0.3:
            # files stitched together from templates repeat lines; git's "last match wins" makes the position of a repeat matter
            k = r.randrange(0, len(lines) - 1)
            lines.append(lines[k])
            if r.random() < 0.5:
                lines.insert(k + 1, ("!" + lines[k]) if not lines[k].startswith("!") and lines[k] and not lines[k].startswith("#") else lines[k][1:] or "x")
        text = "\n".join(lines) + ("\n" if r.random() < 0.8 else "")
        use = r.random() < 0.85
        ig = git_ignored(ents + [(".gitignore", "f", None)], text) if use else set()
        ops = [gen.d_op("src")]
        for p, k, to in ents:
            if k == "d":
                ops.append(gen.d_op("src/" + p))
        for p, k, to in ents:
            if k == "f":
                ops.append(gen.f_op("src/" + p, r.randrange(0, 300), pat=r.randrange(1, 1 << 30)))
            elif k == "l":
                ops.append(gen.l_op("src/" + p, to))
        ops.append({"op": "file", "p": "src/.gitignore", "len": len(text.encode()), "runs": [], "text": text})
        flags = {"r": True}
        if use:
            flags["gitignore"] = True
        kernel = {}
        if r.random() < 0.3:
            kernel["max_io"] = r.choice([1, 3, 16])
        sp = r.choice(["src", "src", "src", "./src", "src/", "src//", "src/.", ".//src", "$ROOT/src", "aux/../src", "./aux/.././src"])
        ops.append(gen.d_op("aux"))
        srcs = [sp]
        ignore = {sp: sorted(ig)}
        if r.random() < 0.3:
            # a second source directory that has no .gitignore of its own: nothing of it is filtered, whatever the first one excludes
            ops.append(gen.d_op("other"))
            ops.append(gen.d_op("dst"))
            for p, k, to in ents[:8]:
                if k == "d":
                    ops.append(gen.d_op("other/" + p))
            for p, k, to in ents[:8]:
                par = p.rsplit("/", 1)[0] if "/" in p else ""
                if k == "f" and (par == "" or any(o["p"] == "other/" + par for o in ops)):
                    ops.append(gen.f_op("other/" + p, 5, pat=3))
            for nm in ("b.log", "a.o", "x.tmp", "debug"):
                if not any(o["p"] == "other/" + nm for o in ops):
                    ops.append(gen.f_op("other/" + nm, 4, pat=2))
            srcs = [sp, "other"] if r.random() < 0.7 else ["other", sp]
            ignore["other"] = []
        inv = gen.mk_inv(srcs, "dst", driver=driver, workers=workers, block_size=max(bs, 4096), **flags)
        return {"setup": ops, "steps": [{"inv": inv, "ignore": ignore}], "kernel": kernel, "gitignore": text, "n_ignored": len(ig), "max_events": 300000}

    FAULT_N = {"quick": 6, "thorough": 60}

    def fault_site(self, ev, case):
        # a failing stat / open / read of a source entry or of the .gitignore file may fail the run, never widen what is copied
        p = ev.get("p") or ev.get("fdp") or ""
        if p.startswith("$ROOT/"):
            p = p[6:]
        return ev["c"] in ("statx", "newfstatat", "lstat", "stat", "openat", "read", "getdents64") and not p.startswith("dst") and p != ""

    def evaluate(self, res, verdict, case, step_i, t0, plan):
        f = super().evaluate(res, verdict, case, step_i, t0, plan)
        for x in f:
            if x.prop == "C02" and x.cls.split(":")[0].startswith(("missing-", "extra-entry", "kind-")):
                x.prop = "C17"
                x.cls = ("excluded-but-git-keeps:" if x.cls.startswith("missing") else "copied-but-git-ignores:" if x.cls.startswith("extra") else "") + x.cls
        return f

    def is_nontrivial(self, res, verdict, case):
        return case.get("n_ignored", 0) > 0


CHECK = C17
