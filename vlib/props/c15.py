"""C15 — reflink modes keep their contract: never clones, always insists, auto falls back."""
from .. import gen, oracle
from ..scheck import SCheck
from ..oracle import Finding, DATA_CALLS

ANSWERS = ["native", "EOPNOTSUPP", "EINVAL", "EXDEV", "ETXTBSY", "EIO", "emulate"]
UNSUPPORTED = ("native", "EOPNOTSUPP", "EINVAL", "EXDEV", "ETXTBSY")


class C15(SCheck):
    prop = "C15"
    level = "fault_enumeration"
    default_seed = 15015
    N = {"quick": 420, "thorough": 6000}
    K = {"quick": 2, "thorough": 4}
    technique = "deterministic simulation with the clone ioctl answered by the simulated kernel (each unsupported errno, hard error, emulated success); oracle on the per-file call pattern in the supervisor trace"
    rule = ("case = tree of regular files (empty, small, multi-block, sparse) x reflink mode {never, auto, always} x driver x answer of "
            "ioctl(FICLONE) in {tmpfs native EOPNOTSUPP, EOPNOTSUPP, EINVAL, EXDEV, ETXTBSY, EIO, emulated success}: the answer set is "
            "enumerated round-robin over the cases; oracle per destination file on the global event order; non-trivial = at least one regular "
            "file selected; distinct by (case, signature)")
    assumptions = ["a successful clone is emulated by the supervisor copying the bytes (content and length equal, no shared extents)"]

    def gen_case(self, r, idx, tier):
        driver, workers, bs = gen.pick_config(r, multiblock=True)
        mode = ["never", "auto", "always"][idx % 3]
        answer = ANSWERS[(idx // 3) % len(ANSWERS)]
        ops = [gen.d_op("src")]
        for i in range(r.randrange(1, 5)):
            c = r.random()
            if c < 0.15 and bs >= 65536:
                ln, runs = gen.sparse_layout(r, max_runs=3)
                ops.append(gen.f_op("src/s%d" % i, ln, runs=runs))
            else:
                ops.append(gen.f_op("src/f%d" % i, gen.boundary_size(r, bs, cap=(3000 if bs < 64 else 150_000)), pat=r.randrange(1, 1 << 30)))
        if r.random() < 0.3:
            ops.append(gen.d_op("src/sub"))
            ops.append(gen.f_op("src/sub/g", 100, pat=5))
        dest = "dst"
        if answer == "native" and r.random() < 0.6:
            # destination on a second file system: the real kernel answers the clone request with EXDEV
            ops.append(gen.mount_op("vol"))
            dest = "vol/dst"
        inv = gen.mk_inv(["src"], dest, driver=driver, workers=workers, block_size=bs, r=True, reflink=mode)
        gen.swarm_flags(r, inv["flags"], allow=("fsync", "no_perms", "no_timestamps", "no_progress"))
        kernel = {"ficlone": answer}
        if r.random() < 0.3:
            kernel["fiemap"] = "emulate"
        return {"setup": ops, "steps": [{"inv": inv}], "kernel": kernel, "max_events": 300000, "answer": answer}

    def evaluate(self, res, verdict, case, step_i, t0, plan):
        inv = case["steps"][step_i]["inv"]
        mode = inv["flags"]["reflink"]
        answer = case["answer"]
        f = oracle.termination_findings(res)
        if verdict is not None:
            from ..scheck import sparse_applicable
            tf = oracle.check_tree(res, verdict, inv, case.get("umask", 0o022), t0, sparse_ok=sparse_applicable(case, inv, plan))
            for x in tf:
                if x.prop == "C01" and mode == "auto":
                    x.prop, x.cls = "C15", "auto-fallback-bytes:" + x.cls
            f += tf
        ok = oracle.succeeded(res)
        # per destination object: clone calls and data calls in global order
        per = {}
        for ev in res.get("events", []):
            o = ev.get("fdo")
            if o is None:
                continue
            if ev["c"] == "ioctl" and ev.get("req") == "FICLONE":
                per.setdefault(o, []).append(("clone", ev))
            elif ev["c"] in ("copy_file_range", "pwrite64", "write", "writev", "sendfile") and not str(ev.get("r")).startswith("-") and ev.get("fdp", "").startswith(("dst", "vol/dst")):
                per.setdefault(o, []).append(("data", ev))
        any_clone = any(k == "clone" for v in per.values() for k, _ in v)
        if mode == "never" and any_clone:
            f.append(Finding("C15", "never-but-cloned", "", "reflink=never but a clone request was issued"))
        dest_files = {e["o"]: e["p"] for e in res["post"] if e["k"] == "f" and verdict is not None and e["p"] in verdict.expect and e.get("size", 0) >= 0}
        if mode == "always":
            if ok:
                if answer in UNSUPPORTED or answer == "EIO":
                    f.append(Finding("C15", "always-exit0-unsupported", "", "reflink=always exited 0 although cloning answers %s" % answer))
                for o, p in dest_files.items():
                    evs = per.get(o, [])
                    okc = any(k == "clone" and e.get("r") == 0 for k, e in evs)
                    if not okc:
                        f.append(Finding("C15", "always-file-not-cloned", p, "reflink=always, exit 0, but no successful clone of this file"))
                    if any(k == "data" for k, e in evs):
                        f.append(Finding("C15", "always-data-copied", p, "reflink=always, exit 0, but data was copied into this file"))
        if mode == "auto":
            for o, p in dest_files.items():
                evs = per.get(o, [])
                first_data = next((i for i, (k, e) in enumerate(evs) if k == "data"), None)
                first_clone = next((i for i, (k, e) in enumerate(evs) if k == "clone"), None)
                if first_data is not None and (first_clone is None or first_clone > first_data):
                    f.append(Finding("C15", "auto-no-clone-attempt", p, "reflink=auto copied data without trying to clone first"))
            if answer in UNSUPPORTED and verdict is not None and verdict.kind == "expect" and not ok and res["outcome"]["kind"] == "exit":
                f.append(Finding("C15", "auto-no-fallback", "", "reflink=auto failed (exit %s) although cloning is merely unsupported (%s): %s" % (res["outcome"].get("code"), answer, res.get("stderr", "")[-200:])))
            if answer == "emulate" and ok:
                for o, p in dest_files.items():
                    if any(k == "data" for k, e in per.get(o, [])):
                        f.append(Finding("C15", "auto-copied-after-clone", p, "clone succeeded but data was copied as well"))
        return f

    def is_nontrivial(self, res, verdict, case):
        return verdict is not None and any(k == "f" for (_, _, k, _) in verdict.selected)


CHECK = C15
