"""C13 — --dereference copies what links point to, or fails; never leaves links or gaps."""
from .. import gen, oracle
from ..scheck import SCheck
from ..oracle import Finding


class C13(SCheck):
    prop = "C13"
    level = "exploration"
    default_seed = 13013
    N = {"quick": 500, "thorough": 8000}
    K = {"quick": 2, "thorough": 3}
    technique = "deterministic simulation (input-driven): generated link graphs under -L, permuted directory order, snapshot vs resolved-tree model + trace (no symlink call)"
    rule = ("case = tree with links to files, to directories (with content), chains up to 38, relative/absolute, inside/outside the source, "
            "dangling and cyclic; as tree members or as the top-level source; -L; oracle: exit 0 implies no symlink in the mapped destination and "
            "the tree equals the model built by resolving every path; dangling/cyclic implies exit != 0; non-trivial = at least one link was "
            "selected; distinct by (case, signature).  Quantified over inputs: schedules contribute replayability and walk order only")
    assumptions = ["link targets stay inside the sandbox", "chains <= 38 (Linux follows at most 40); chains longer than 17 are not part of the determinism audit (ELOOP near the budget is timing dependent in the kernel)"]

    def gen_case(self, r, idx, tier):
        driver, workers, bs = gen.pick_config(r)
        ops = [gen.d_op("src"), gen.d_op("out"), gen.d_op("out/tdir"), gen.f_op("out/tdir/inner", 100, pat=3), gen.f_op("out/tfile", 2000, pat=4),
               gen.d_op("out/tdir/deep"), gen.f_op("out/tdir/deep/z", 5, pat=6),
               gen.f_op("src/plain", gen.boundary_size(r, bs, cap=5000), pat=9), gen.d_op("src/d"), gen.f_op("src/d/x", 10, pat=2)]
        n = r.randrange(1, 5)
        fragile = False
        bad = None
        for i in range(n):
            p = "src/" + ("d/" if r.random() < 0.3 else "") + "l%d" % i
            depth_up = "../" * p.count("/")
            kind = r.choice(["file-rel", "file-abs", "dir-rel", "dir-abs", "inside-file", "inside-dir", "chain", "dangling", "cycle", "dir-cycle"])
            if kind == "file-rel":
                ops.append(gen.l_op(p, depth_up + "out/tfile"))
            elif kind == "file-abs":
                ops.append(gen.l_op(p, "$ROOT/out/tfile"))
            elif kind == "dir-rel":
                ops.append(gen.l_op(p, depth_up + "out/tdir"))
            elif kind == "dir-abs":
                ops.append(gen.l_op(p, "$ROOT/out/tdir"))
            elif kind == "inside-file":
                ops.append(gen.l_op(p, "$ROOT/src/plain"))
            elif kind == "inside-dir":
                if p.startswith("src/d/"):
                    ops.append(gen.l_op(p, "$ROOT/out/tdir/deep"))
                else:
                    ops.append(gen.l_op(p, "d"))
            elif kind == "chain":
                # resolutions within 2 links of the kernel's budget of 40 are answered ELOOP or not depending on timing (observed under
                # load: the budget is not reset when a lock-free path walk is retried), so such a case is legal but not replayable:
                # it is generated (exit 0 must still mean a correct tree) and kept out of the determinism audit
                ln = r.choice([2, 3, 10, 17, 17, 38])
                if ln > 17:
                    fragile = True
                for j in range(ln - 1):
                    ops.append(gen.l_op("out/c%d_%d" % (i, j), "c%d_%d" % (i, j + 1)))
                ops.append(gen.l_op("out/c%d_%d" % (i, ln - 1), r.choice(["tfile", "tdir"])))
                ops.append(gen.l_op(p, "$ROOT/out/c%d_0" % i))
            elif kind == "dangling":
                ops.append(gen.l_op(p, "nowhere-%d" % i))
            elif kind == "cycle":
                ops.append(gen.l_op("out/cy%da" % i, "cy%db" % i))
                ops.append(gen.l_op("out/cy%db" % i, "cy%da" % i))
                ops.append(gen.l_op(p, "$ROOT/out/cy%da" % i))
            else:
                ops.append(gen.l_op(p, "$ROOT/src" if not p.startswith("src/d/") else "$ROOT/src/d"))
        if r.random() < 0.3:
            # link targets on another file system (a second tmpfs mounted inside the sandbox)
            ops += [gen.mount_op("vol"), gen.d_op("vol/xdir"), gen.f_op("vol/xdir/inner", 55, pat=8), gen.d_op("vol/xdir/sub"), gen.f_op("vol/xdir/sub/z", 9, pat=9),
                    gen.f_op("vol/xfile", 1234, pat=10)]
            ops.append(gen.l_op("src/xd", "$ROOT/vol/xdir"))
            ops.append(gen.l_op("src/d/xf", "$ROOT/vol/xfile"))
            if r.random() < 0.5:
                ops.append(gen.l_op("out/via", "$ROOT/vol/xdir"))
                ops.append(gen.l_op("src/xchain", "$ROOT/out/via"))
        if r.random() < 0.25:
            # a link reached *through* a link to a directory whose own text climbs with "..": it must be resolved where it physically
            # lives (out/store/pkg/..), not where a textual clean-up of src/pkg/../common would put it (a decoy sits there)
            ops += [gen.d_op("out/store"), gen.d_op("out/store/pkg"), gen.d_op("out/store/common"), gen.f_op("out/store/common/LIC", 40, pat=21),
                    gen.f_op("out/store/pkg/body", 30, pat=22), gen.l_op("out/store/pkg/LIC", "../common/LIC"),
                    gen.d_op("src/common"), gen.f_op("src/common/LIC", 41, pat=23), gen.l_op("src/pkg", "../out/store/pkg")]
        into_dest = r.random() < 0.2
        if into_dest:
            # a source link that leads into what an earlier copy left in the destination (restore-from-backup layouts)
            ops += [gen.d_op("dst"), gen.d_op("dst/src"), gen.d_op("dst/src/old"), gen.f_op("dst/src/old/one", 12, pat=31), gen.d_op("dst/src/old/deep"),
                    gen.f_op("dst/src/old/deep/two", 13, pat=32), gen.l_op("src/restored", "../dst/src/old")]
        top = r.random() < 0.2 and not into_dest
        flags = {"r": True, "L": True}
        if top:
            ops.append(gen.l_op("toplink", r.choice(["out/tdir", "out/tfile", "src"])))
            srcs = ["toplink"]
        else:
            srcs = ["src"]
        dest = "dst"
        if r.random() < 0.5:
            ops.append(gen.d_op("dst"))
        inv = gen.mk_inv(srcs, dest, driver=driver, workers=workers, block_size=bs, **flags)
        return {"setup": ops, "steps": [{"inv": inv}], "max_events": 200000, "no_audit": fragile}

    def evaluate(self, res, verdict, case, step_i, t0, plan):
        f = super().evaluate(res, verdict, case, step_i, t0, plan)
        for x in f:
            # under -L the shape of the destination is this property's business
            if x.prop in ("C02", "C01") and x.cls.split(":")[0] in ("missing-f", "missing-d", "kind-f-as-l", "kind-d-as-l", "extra-entry", "content") \
                    or (x.prop == "C02" and x.cls.startswith(("missing-", "kind-"))):
                x.prop = "C13"
        if oracle.succeeded(res):
            for ev in res.get("events", []):
                if ev["c"] in ("symlink", "symlinkat") and not str(ev.get("r")).startswith("-"):
                    f.append(Finding("C13", "symlink-created", ev.get("p", ""), "a symbolic link was created although --dereference was given"))
                    break
        return f

    def is_nontrivial(self, res, verdict, case):
        return any(e["k"] == "l" and e["p"].startswith(("src/", "toplink")) for e in res["pre"])


CHECK = C13
