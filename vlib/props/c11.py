"""C11 — holes stay holes: sparse files are copied without materialising them."""
from .. import gen, oracle
from ..scheck import SCheck


class C11(SCheck):
    prop = "C11"
    level = "exploration"
    default_seed = 11011
    N = {"quick": 400, "thorough": 5000}
    K = {"quick": 2, "thorough": 4}
    technique = "deterministic simulation: seeded schedules x emulated FIEMAP paging variants (split, rounded, flagged, physically packed extents) x per-call kernel limit x copy_file_range absent, snapshot oracle on st_blocks and the SEEK_DATA/SEEK_HOLE map"
    rule = ("case = sparse files (holes >= 1 MiB, apparent size up to 256 MiB, 0..100 data runs so that FIEMAP needs several 32-extent pages; "
            "leading/trailing/interleaved holes, all-hole) x block size smaller/larger than segments x driver x workers 1..16 x fresh or fully "
            "allocated previous destination; kernel profile = FIEMAP emulated from the real data map (split extents / last extent rounded "
            "past EOF variants) with native SEEK_DATA/SEEK_HOLE; oracle: allocated(dst) <= allocated(src) + 4 KiB*(runs+1), no destination data "
            "inside a source hole >= 1 MiB, bytes equal; non-trivial = source has a hole >= 1 MiB; distinct by (case, signature)")
    assumptions = ["tmpfs accounts 4 KiB pages exactly (no shmem huge pages); verified by the selftest",
                   "extent maps are emulated to the ext4-checked FIEMAP contract of DESIGN Appendix A"]

    def gen_case(self, r, idx, tier):
        driver = r.choice(["parfile", "parblock", "parblock"])
        workers = r.choice([1, 2, 4, 8, 16])
        bs = r.choice([4096, 65536, 1 << 20, 1 << 22, 8192])
        ops = [gen.d_op("src"), gen.d_op("dst")]
        nf = r.randrange(1, 3)
        for i in range(nf):
            many = r.random() < 0.25
            if many:
                # > 32 extents: several FIEMAP pages
                n = r.randrange(33, 101)
                pos = (1 << 20) * r.randrange(0, 3)
                runs = []
                for j in range(n):
                    ln = 4096 * r.randrange(1, 3)
                    runs.append([pos, ln, r.randrange(1, 1 << 30)])
                    pos += ln + (1 << 20) * r.randrange(1, 3)
                if r.random() < 0.5:
                    pos -= (1 << 20)  # no trailing hole: data at the very end (after removing the last gap)
                    pos = runs[-1][0] + runs[-1][1]
                ln = pos
            else:
                ln, runs = gen.sparse_layout(r, max_apparent=256 << 20, max_runs=8)
                if r.random() < 0.5:
                    # data runs of very different lengths (a long one followed by short ones)
                    for j, x in enumerate(runs):
                        room = (runs[j + 1][0] if j + 1 < len(runs) else ln) - x[0] - (1 << 20)
                        want = 4096 * r.choice([1, 1, 3, 17, 40])
                        if room >= want:
                            x[1] = max(x[1], want) if j % 2 == 0 else x[1]
            ops.append(gen.f_op("src/s%d" % i, ln, runs=runs, mode=0o644))
            if r.random() < 0.3 and ln <= (8 << 20):
                # previous destination fully allocated
                ops.append(gen.f_op("dst/s%d" % i, min(ln, 2 << 20), pat=77))
        kernel = {"fiemap": "emulate"}
        if r.random() < 0.3:
            kernel["fiemap_split"] = r.choice([4096, 8192])
        if r.random() < 0.3:
            kernel["fiemap_round_eof"] = True
        if r.random() < 0.3:
            kernel["fiemap_flagbits"] = r.choice(gen.FIEMAP_FLAGBITS)
        if r.random() < 0.3:
            # this kernel moves fewer bytes per call than a block: a retry after a short count must not run past the extent into the hole
            kernel["max_io"] = r.choice([4096, 8192, 65536])
        if r.random() < 0.3:
            # extents that are adjacent on the device although the file has a hole between them
            kernel["fiemap_phys_packed"] = True
        if r.random() < 0.3:
            # the in-kernel copy is unavailable: the user-space read/write fallback must keep the holes as well
            kernel["cfr"] = r.choice(["ENOSYS", "EXDEV", "EPERM"])
        flags = {}
        if r.random() < 0.2:
            flags["no_progress"] = True
        inv = gen.mk_inv(["src/s%d" % i for i in range(nf)], "dst", driver=driver, workers=workers, block_size=bs, **flags)
        return {"setup": ops, "steps": [{"inv": inv}], "kernel": kernel, "max_events": 400000}

    def is_nontrivial(self, res, verdict, case):
        for e in res["pre"]:
            if e["k"] == "f" and e["p"].startswith("src/") and e.get("blocks", 0) * 512 + (1 << 20) <= e.get("size", 0):
                return True
        return False


CHECK = C11
