"""C05 — correct under short I/O counts and absent kernel copy/clone/extent support."""
from .. import gen, oracle
from ..fcheck import FCheck, clamps_for
from ..oracle import Finding


class C05(FCheck):
    prop = "C05"
    level = "fault_enumeration"
    default_seed = 5005
    N = {"quick": 70, "thorough": 1500}
    PER_CASE = {"quick": 40, "thorough": 100000}
    PAIRS = {"quick": 0, "thorough": 0}
    kinds = ("clamp", "eintr")
    needs_fallback = True
    technique = "deterministic simulation with enumerated short transfers: every copy_file_range/read/pread/write/pwrite call of a recorded schedule re-run with its length clamped to {1, n/2, n-1}; whole-run kernel profiles (facility absent, per-call limit); also the build against libfs' non-Linux backend"
    rule = ("case = files as in C01 x whole-run kernel profile (per-call limit M in {1,7,4096,65536}; copy_file_range native / ENOSYS / EXDEV / "
            "EPERM / native-then-EXDEV after j calls; FICLONE EOPNOTSUPP/EINVAL/EXDEV; FIEMAP emulated / EOPNOTSUPP) x driver x block size, one "
            "case in five on the binary built against the non-Linux backend; baseline run records the I/O calls, each is re-run clamped to "
            "k in {1, n/2, n-1} bytes and every read() once with EINTR (quick: stratified sample; thorough: all); oracle: exit 0 implies "
            "byte-exact destination; non-trivial = a clamp/EINTR actually fired or a facility was answered 'absent'; distinct by signature")
    assumptions = ["short returns are produced by clamping the length argument before the real kernel executes the call",
                   "fallback-backend binary is built through shadow manifests generated from /repo's Cargo.toml files"]

    def gen_case(self, r, idx, tier):
        driver, workers, bs = gen.pick_config(r, multiblock=True)
        fb = (idx % 5 == 4)
        cap = 3000 if bs < 64 else 200_000
        ops = [gen.d_op("src"), gen.d_op("dst")]
        nf = r.randrange(1, 4)
        for i in range(nf):
            if r.random() < 0.25 and bs >= 4096 and not fb:
                ln, runs = gen.sparse_layout(r, max_runs=3)
                ops.append(gen.f_op("src/f%d" % i, ln, runs=runs))
            else:
                ops.append(gen.f_op("src/f%d" % i, gen.boundary_size(r, bs, cap=cap), pat=r.randrange(1, 1 << 30)))
            if r.random() < 0.3:
                ops.append(gen.f_op("dst/f%d" % i, r.randrange(0, 5000), pat=9))
        kernel = {}
        c = r.random()
        if c < 0.3:
            kernel["cfr"] = r.choice(["ENOSYS", "EXDEV", "EPERM"])
            if r.random() < 0.4:
                kernel["cfr_after"] = r.randrange(1, 4)
        c = r.random()
        if c < 0.3:
            kernel["ficlone"] = r.choice(["EOPNOTSUPP", "EINVAL", "EXDEV"])
        c = r.random()
        if c < 0.4:
            kernel["fiemap"] = "emulate"
        elif c < 0.6:
            kernel["fiemap"] = "EOPNOTSUPP"
        if r.random() < 0.25:
            kernel["max_io"] = r.choice([1, 7, 4096, 65536]) if cap > 3000 else r.choice([1, 7])
            if kernel["max_io"] < 64:
                # keep the run short: tiny files only
                ops = [o for o in ops if o["op"] != "file" or o["len"] <= 3000]
        flags = {}
        if r.random() < 0.2:
            flags["no_progress"] = True
        if r.random() < 0.3:
            flags["reflink"] = r.choice(["auto", "never"])
        srcs = [o["p"] for o in ops if o["op"] == "file" and o["p"].startswith("src/")]
        if not srcs:
            ops.append(gen.f_op("src/f0", 100, pat=3))
            srcs = ["src/f0"]
        dest = "dst"
        if r.random() < 0.15:
            # cross-device copy: copy_file_range and FICLONE fail with the real kernel's EXDEV
            ops = [o for o in ops if not o["p"].startswith("dst")]
            ops += [gen.mount_op("vol"), gen.d_op("vol/dst")]
            dest = "vol/dst"
        inv = gen.mk_inv(srcs, dest, driver=driver, workers=workers, block_size=bs, **flags)
        case = {"setup": ops, "steps": [{"inv": inv}], "kernel": kernel, "max_events": 400000}
        if fb:
            case["bin"] = "xcp-fallback"
        return case

    def candidates(self, events, nsites):
        out = []
        for ev in events:
            s = ev.get("site")
            if s is None:
                continue
            for k in clamps_for(ev):
                out.append({"faults": [{"site": s, "clamp": k}], "_call": ev["c"], "_role": ev.get("role")})
            if ev["c"] in ("read", "pread64", "write", "pwrite64", "copy_file_range"):
                # an interrupted transfer: nothing was moved, the call may simply be retried
                out.append({"faults": [{"site": s, "errno": "EINTR"}], "_call": ev["c"], "_role": ev.get("role")})
            if ev["c"] == "copy_file_range":
                out.append({"faults": [{"site": s, "errno": "EAGAIN"}], "_call": ev["c"], "_role": ev.get("role")})
        return out

    def _retag(self, findings, res, case):
        what = []
        k = case.get("kernel", {})
        for key in ("cfr", "ficlone", "fiemap", "max_io"):
            if k.get(key) is not None and k.get(key) != "emulate":
                what.append(key)
        fired = [x["fired"] + ("-" + x["errno"].lower() if x.get("errno") else "-short") for x in res["stats"].get("faults", []) if x.get("fired")]
        tag = "+".join(sorted(set(fired)) or sorted(what) or ["plain"])
        if case.get("bin") == "xcp-fallback":
            tag += ":fallback-backend"
        for f in findings:
            if f.prop == "C01":
                f.prop, f.cls = "C05", "bytes-wrong:" + tag + ":" + case["steps"][0]["inv"]["driver"]
        return findings

    def evaluate(self, res, verdict, case, step_i, t0, plan):
        return self._retag(super().evaluate(res, verdict, case, step_i, t0, plan), res, case)

    def evaluate_fault(self, res, verdict, case, t0, plan, base):
        return self._retag(super().evaluate_fault(res, verdict, case, t0, plan, base), res, case)

    def run_item(self, sim, item):
        rec = super().run_item(sim, item)
        # a whole-run profile is a fault too: the baseline counts when a facility was answered 'absent'
        k = item["case"].get("kernel", {})
        if rec["runs"] and any(k.get(x) not in (None, "emulate") for x in ("cfr", "ficlone", "fiemap", "max_io")):
            rec["runs"][0]["nontrivial"] = True
        if item["case"].get("bin") == "xcp-fallback":
            rec["probes"] = {"fallback-backend-cases": 1}
            if rec["runs"]:
                rec["runs"][0]["nontrivial"] = True
        return rec


CHECK = C05
