"""C12 — progress updates are truthful, never exceed 100%, and the stream ends."""
from .. import gen, oracle
from ..fcheck import FCheck
from ..oracle import Finding


def probe_argv(inv, updater, mode):
    fl = inv["flags"]
    a = ["xcpprobe", "copy", "--driver", inv["driver"], "--updater", updater, "--mode", mode, "--workers", str(inv["workers"]),
         "--block-size", str(inv["block_size"])]
    for k, o in (("n", "--no-clobber"), ("fsync", "--fsync"), ("L", "--dereference"), ("no_perms", "--no-perms"), ("no_timestamps", "--no-timestamps")):
        if fl.get(k):
            a.append(o)
    if fl.get("reflink"):
        a += ["--reflink", fl["reflink"]]
    if fl.get("backup"):
        a += ["--backup", fl["backup"]]
    return a + ["--"] + list(inv["sources"]) + [inv["dest"]]


class C12(FCheck):
    prop = "C12"
    level = "exploration"
    default_seed = 12012
    ustep_rate = 0.35
    N = {"quick": 100, "thorough": 2500}
    PER_CASE = {"quick": 12, "thorough": 400}
    PAIRS = {"quick": 0, "thorough": 0}
    kinds = ("errno",)
    needs_probe = True
    technique = "deterministic simulation of an API probe linked against libxcp: every StatusUpdate is a system call ordered by the supervisor against the data calls; seeded schedules (preemption at system calls and, by single-stepping, after atomic instructions inside send()) plus sampled single faults"
    rule = ("case = tree (small and multi-block files, nested dirs, links) x driver x workers x block size x updater {recording client-supplied "
            "updater, ChannelUpdater drained by the client, NoopUpdater} x mode {copy() in a thread as documented, copy() inline}; each case "
            "runs fault-free and with sampled single errno faults; oracle on the global event order: sum(Size) = total length of selected "
            "regular files on success (<= on failure); at every prefix sum(Copied) <= sum(Size) and <= bytes actually transferred so far; the "
            "stream ends (END / RET marker, process exits); if the destination is incomplete an Error update was delivered or copy() returned "
            "Err; non-trivial = at least one Copied update was observed; distinct by signature")
    assumptions = ["the probe reports each update through one write(2); the supervisor's sequence numbers give the total order"]

    def gen_case(self, r, idx, tier):
        driver, workers, bs = gen.pick_config(r, multiblock=True)
        if bs == 7:
            bs = r.choice([7, 1000, 512])
        cap = 3000 if bs < 64 else 200_000
        ops = gen.small_tree(r, "src", nfiles=r.randrange(1, 6), links=r.random() < 0.3, specials=False,
                             sizes=lambda rr: gen.boundary_size(rr, bs, cap=cap), bs=bs)
        if bs >= 4096 and r.random() < 0.5:
            ops.append(gen.f_op("src/big", min(cap, bs * r.randrange(2, 7) + r.choice([0, 1])), pat=r.randrange(1, 1 << 30)))
        kernel = {}
        if bs >= 512 and r.random() < 0.35:
            # sparse file whose extent map reaches past EOF: block jobs that end early or lie beyond EOF
            ln, runs = gen.sparse_layout(r, style=r.choice(["tail-unaligned", "inter", "trail", "lead"]), max_runs=3)
            ops.append(gen.f_op("src/sparse", ln, runs=runs))
            kernel = {"fiemap": "emulate", "fiemap_round_eof": r.random() < 0.6, "fiemap_past_eof": r.choice([0, 0, 4096, 65536])}
        flags = {"r": True}
        if r.random() < 0.2:
            flags["fsync"] = True
        if r.random() < 0.2:
            flags["reflink"] = r.choice(["never", "auto"])
        if r.random() < 0.3:
            ops.append(gen.d_op("dst"))
        inv = gen.mk_inv(["src"], "dst", driver=driver, workers=min(workers, 16), block_size=bs, **flags)
        if r.random() < 0.3:
            kernel = dict(kernel, time_jump_p=r.choice([0.02, 0.1, 0.5]))
        updater = ["record", "channel", "noop"][idx % 3]
        mode = ["thread", "inline"][(idx // 3) % 2]
        race_shape = idx % 10 == 4
        if race_shape:
            # many updates smaller than the batching unit from several workers at once: the shape in which the provided updater's
            # shared counters are contended (files below the block size under parfile, short blocks under parblock)
            updater, mode = "channel", "thread"
            bs = r.choice([65536, 1 << 20])
            ops = [gen.d_op("src")] + [gen.f_op("src/r%02d" % i, r.randrange(9000, 30000), pat=r.randrange(1, 1 << 30)) for i in range(r.randrange(10, 18))]
            kernel = {}
            inv = gen.mk_inv(["src"], "dst", driver=r.choice(["parfile", "parfile", "parblock"]), workers=r.choice([3, 4, 8]), block_size=bs, r=True)
        return {"setup": ops, "bin": "probe", "steps": [{"inv": inv, "argv": probe_argv(inv, updater, mode)}], "updater": updater, "mode": mode,
                "max_events": 400000, "kernel": kernel, "race_shape": race_shape}

    def _stream(self, res, verdict, case):
        f = []
        inv = case["steps"][0]["inv"]
        updater = case["updater"]
        size = copied = moved = 0
        n_copied = 0
        saw_end = saw_ret = False
        ret_ok = None
        errors = 0
        first_bad = None
        for ev in res.get("events", []):
            c = ev["c"]
            if "upd" in ev:
                u = ev["upd"]
                k = u[:1]
                if u.startswith("END"):
                    saw_end = True
                elif u.startswith("RET "):
                    saw_ret = True
                    ret_ok = u.startswith("RET ok")
                elif u.startswith("RETURNED"):
                    pass
                elif k in ("S", "s"):
                    size += int(u[2:])
                elif k in ("C", "c"):
                    copied += int(u[2:])
                    n_copied += 1
                    if first_bad is None and copied > size:
                        first_bad = Finding("C12", "copied-exceeds-announced", "", "after event %d: %d bytes reported copied but only %d announced" % (ev["i"], copied, size))
                    if first_bad is None and copied > moved:
                        first_bad = Finding("C12", "copied-exceeds-transferred", "", "after event %d: %d bytes reported copied but only %d transferred" % (ev["i"], copied, moved))
                elif k in ("E", "e"):
                    errors += 1
            elif c in ("copy_file_range", "pwrite64", "write", "sendfile") and isinstance(ev.get("r"), int) and ev["r"] > 0 and str(ev.get("fdp", "")).startswith("dst"):
                moved += ev["r"]
            elif c == "ioctl" and ev.get("req") == "FICLONE" and ev.get("r") == 0:
                moved += 1 << 40
        if first_bad:
            f.append(first_bad)
        exited = res["outcome"]["kind"] == "exit"
        if exited and updater != "noop" or exited:
            if not saw_ret:
                f.append(Finding("C12", "no-return-marker", "", "the process exited without copy() having returned to the client"))
            if updater == "channel" and not saw_end:
                f.append(Finding("C12", "channel-not-closed", "", "the receiver loop over rx_channel() did not end"))
        total = None
        if verdict is not None and verdict.kind == "expect":
            total = sum(s.get("size") or 0 for s in verdict.expect.values() if s["k"] == "f" and "same_as_pre" not in s)
        if updater != "noop" and total is not None and exited:
            if ret_ok and errors == 0 and size != total:
                f.append(Finding("C12", "size-sum-wrong", "", "announced sizes sum to %d, selected regular files total %d" % (size, total)))
            if size > total:
                f.append(Finding("C12", "size-sum-exceeds", "", "announced sizes sum to %d > %d" % (size, total)))
        return f, {"ret_ok": ret_ok, "errors": errors, "n_copied": n_copied, "saw_ret": saw_ret}

    def _eval(self, res, verdict, case, t0, plan, exempt=()):
        inv = case["steps"][0]["inv"]
        f = oracle.termination_findings(res)
        for x in f:
            x.prop, x.cls = "C12", "stream-does-not-end:" + x.cls
        sf, info = self._stream(res, verdict, case)
        f += sf
        if verdict is not None:
            from ..scheck import sparse_applicable
            tf = oracle.check_tree(res, verdict, inv, case.get("umask", 0o022), t0, fault_exempt=exempt, sparse_ok=sparse_applicable(case, inv, plan))
            incomplete = [x for x in tf if x.prop in ("C01", "C02") and x.cls.split(":")[0] in ("content", "missing-f", "missing-d", "missing-l")]
            if incomplete and info["ret_ok"] and info["errors"] == 0 and case["updater"] != "noop":
                x = incomplete[0]
                f.append(Finding("C12", "incomplete-without-error", x.path, "copy() returned Ok and no Error update was delivered, but %s/%s: %s" % (x.prop, x.cls, x.detail)))
            elif incomplete and info["ret_ok"] and case["updater"] == "noop":
                x = incomplete[0]
                f.append(Finding("C12", "incomplete-without-error", x.path, "copy() returned Ok (NoopUpdater) but %s/%s: %s" % (x.prop, x.cls, x.detail)))
            f += tf
        self._info = info
        return f

    def evaluate(self, res, verdict, case, step_i, t0, plan):
        return self._eval(res, verdict, case, t0, plan)

    def evaluate_fault(self, res, verdict, case, t0, plan, base):
        return self._eval(res, verdict, case, t0, plan, self.exemptions(res))

    EXTRA_SCHED = {"quick": 3, "thorough": 12}

    def items(self, tier, seed):
        for it in super().items(tier, seed):
            it["extra_sched"] = self.EXTRA_SCHED[tier]
            yield it

    def run_item(self, sim, item):
        import random
        from ..campaign import run_step, summarize
        rec = super().run_item(sim, item)
        case = item["case"]
        # the updaters' own shared state (ChannelUpdater's counters) is only exercised by interleavings *inside* send(): a few more
        # fault-free schedules of the same case, all with user-space preemption after atomic instructions (DESIGN 2.7)
        if item.get("extra_sched") and case.get("updater") != "noop" and not item.get("only"):
            r = random.Random(item["pick_seed"] ^ 0x12c)
            for j in range(item["extra_sched"] * (10 if case.get("race_shape") else 1)):
                sp = gen.sched_plan(r, ustep=1.0)
                sp["ustep_budget"] = 300  # these runs exist for the stepping: let it reach the workers' late segments too
                plan = {"seed": r.randrange(1 << 48), "sched": sp}
                res, verdict, t0 = run_step(sim, case, 0, plan, self.log)
                f = self.evaluate(res, verdict, case, 0, t0, plan)
                rec["runs"].append(summarize(res, f, plan, {"nontrivial": True, "probes": {"extra-stepping-schedules": 1}}))
        if rec["runs"]:
            rec["runs"][0]["nontrivial"] = True
        rec["probes"] = {"updater:" + item["case"]["updater"] + "/" + item["case"]["mode"]: 1}
        return rec


CHECK = C12
