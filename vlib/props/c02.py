"""C02 — exit 0 implies the destination tree mirrors the selected source tree."""
from .. import gen, oracle
from ..scheck import SCheck
from ..model import pct


def spell(r, p, have_sub=None, is_dir=True):
    c = r.random()
    if c < 0.45:
        return p
    if c < 0.6:
        return p + "/" if is_dir else p
    if c < 0.75:
        return "./" + p
    if c < 0.87:
        return "$ROOT/" + p
    if have_sub:
        return have_sub + "/../" + p
    return p


class C02(SCheck):
    prop = "C02"
    level = "exploration"
    default_seed = 2002
    N = {"quick": 450, "thorough": 8000}
    K = {"quick": 2, "thorough": 4}
    technique = "deterministic simulation: seeded schedules and directory orders, whole-sandbox snapshot vs reference model of cp's mapping rule, histories of re-copies"
    rule = ("case = 1-3 source trees (nested dirs, files, relative/absolute/dangling links, names with spaces/unicode/non-UTF-8 bytes) x destination "
            "absent / file / empty dir / dir populated by an earlier copy (history of up to 3 invocations with edits in between) x spellings "
            "(trailing slash, ./, a/../b, absolute) x -T / --target-directory / --glob x driver; oracle = whole sandbox equals the model's "
            "expected tree on exit 0; non-trivial = at least two entries selected; distinct by (case, schedule signature)")
    assumptions = ["model domain of DESIGN 3.1 (unique basenames, destination not inside a source, UTF-8 top-level arguments)"]

    def gen_case(self, r, idx, tier):
        driver, workers, bs = gen.pick_config(r)
        ops = [gen.d_op("aux")]
        nsrc = r.choice([1, 1, 1, 2, 3])
        hist = r.random() < 0.35
        relink = hist and r.random() < 0.35  # histories in which a source link is retargeted between two copies
        fcap = 3000 if bs < 64 else 20000
        srcs = []
        kinds = []
        for i in range(nsrc):
            name = ["src", "s two", "t3"][i]
            if r.random() < 0.7:
                ops += gen.small_tree(r, name, links=(not hist) or relink, odd_names=r.random() < 0.4, specials=(not hist) and r.random() < 0.1,
                                      sizes=lambda rr: gen.boundary_size(rr, bs, cap=fcap), bs=bs)
                kinds.append("d")
            else:
                ops.append(gen.f_op(name, gen.boundary_size(r, bs, cap=fcap), pat=r.randrange(1, 1 << 30)))
                kinds.append("f")
            srcs.append(name)
        flags = {}
        if "d" in kinds:
            flags["r"] = True
        elif r.random() < 0.3:
            flags["r"] = True
        dstate = r.choice(["absent", "file", "empty", "populated", "populated"]) if nsrc == 1 else r.choice(["empty", "populated"])
        dest_link = dstate in ("empty", "populated") and r.random() < 0.15  # the destination is a symbolic link to the directory
        steps = []
        if dstate == "file" and kinds[0] == "f":
            ops.append(gen.f_op("dst", r.randrange(0, 3000), pat=5))
        elif dstate == "empty":
            ops.append(gen.d_op("dst"))
        elif dstate == "populated":
            ops.append(gen.d_op("dst"))
            ops.append(gen.f_op("dst/keep", 33, pat=9))
            ops.append(gen.d_op("dst/keepdir"))
            ops.append(gen.l_op("dst/keeplink", "keep"))
            if kinds[0] == "d" and r.random() < 0.3:
                # an earlier copy left a *file* where the source now has an (empty) directory, or the reverse
                ops.append(gen.d_op(srcs[0] + "/wasfile"))
                ops.append(gen.d_op("dst/" + srcs[0]))
                ops.append(gen.f_op("dst/" + srcs[0] + "/wasfile", 12, pat=4))
        # -T onto an existing directory with a non-directory source must not succeed by mapping to dest/<name>: kept at a low rate
        use_T = nsrc == 1 and r.random() < 0.25 and ((kinds[0] == "d" and dstate != "file") or (kinds[0] == "f" and (dstate in ("absent", "file") or r.random() < 0.4)))
        use_td = (not use_T) and dstate in ("empty", "populated") and r.random() < 0.2
        use_glob = (not use_td) and r.random() < 0.15
        if use_T:
            flags["T"] = True
        if use_td:
            flags["target_dir"] = True
        sp_srcs = [spell(r, s, "aux", k == "d") for s, k in zip(srcs, kinds)]
        if use_glob:
            flags["glob"] = True
            # patterns over top-level names: literal or with a wildcard that matches exactly the intended source
            sp_srcs = [s.replace("src", "sr?") if s == "src" else s for s in srcs]
        dest = spell(r, "dst", "aux", dstate in ("empty", "populated"))
        if dest_link:
            # cp's rule follows the link: the sources land in <real directory>/<basename>
            for op in ops:
                for k in ("p",):
                    if op.get(k) == "dst" or str(op.get(k, "")).startswith("dst/"):
                        op[k] = "realdst" + op[k][3:]
                if op.get("op") == "symlink" and str(op.get("to", "")) == "keep":
                    pass
            ops.append(gen.l_op("dst", r.choice(["realdst", "$ROOT/realdst", "aux/../realdst"])))
        inv = gen.mk_inv(sp_srcs, dest, driver=driver, workers=workers, block_size=bs, **flags)
        steps.append({"inv": inv})
        # history: re-copy after edits
        if hist and not use_glob:
            nmore = r.choice([1, 2])
            for j in range(nmore):
                edits = []
                for s, k in zip(srcs, kinds):
                    if k == "d":
                        edits.append(gen.f_op("%s/new%d" % (s, j), r.randrange(0, fcap), pat=r.randrange(1, 1 << 30)))
                        if r.random() < 0.25:
                            # somebody replaced a copied file in the destination by a link back to its source
                            fs_ = [o["p"] for o in ops if o.get("op") == "file" and o["p"].startswith(s + "/")]
                            if fs_ and not dest_link and not use_T and not use_td:
                                f0 = r.choice(fs_)
                                mapped = ("dst/" + f0) if dstate in ("empty", "populated") else ("dst" + f0[len(s):])
                                edits.append(gen.l_op(mapped, "$ROOT/" + f0, if_file=True))
                        if relink:
                            for lop in [o for o in ops if o.get("op") == "symlink" and o["p"].startswith(s + "/")][:2]:
                                edits.append({"op": "rm", "p": lop["p"]})
                                edits.append(gen.l_op(lop["p"], r.choice(["new%d" % j, "f1", "../aux", "gone%d" % j])))
                        if r.random() < 0.3:
                            # a file of the previous copy becomes an empty directory in the source
                            edits.append({"op": "rm", "p": "%s/new%d" % (s, j - 1)} if j > 0 else gen.d_op("%s/kd%d" % (s, j)))
                            if j > 0:
                                edits.append(gen.d_op("%s/new%d" % (s, j - 1)))
                        if r.random() < 0.5:
                            edits.append(gen.d_op("%s/newdir%d" % (s, j)))
                            edits.append(gen.f_op("%s/newdir%d/x" % (s, j), 10, pat=3))
                    else:
                        edits.append(gen.f_op(s, r.randrange(0, fcap), pat=r.randrange(1, 1 << 30)))
                inv2 = dict(inv, driver=r.choice(["parfile", "parblock"]))
                steps.append({"inv": inv2, "edits": edits})
        return {"setup": ops, "steps": steps, "max_events": 600000}

    def is_nontrivial(self, res, verdict, case):
        return verdict is not None and len(verdict.selected) >= 2


CHECK = C02
