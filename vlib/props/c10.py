"""C10 — permissions, timestamps, xattrs and ownership are preserved as requested."""
from .. import gen, oracle
from ..scheck import SCheck


class C10(SCheck):
    prop = "C10"
    level = "exploration"
    default_seed = 10010
    ustep_rate = 0.35
    N = {"quick": 600, "thorough": 8000}
    K = {"quick": 2, "thorough": 4}
    technique = "deterministic simulation: seeded schedules (finalisation may run on any worker), snapshot oracle on lstat + xattrs"
    rule = ("case = 1-4 regular files with modes drawn from 0..07777, mtimes (past, future, sub-second), 0-3 user xattrs, uid/gid pairs; flag "
            "combinations of --no-perms/--no-timestamps/--ownership; umask {0,022}; fresh and overwritten destinations with a different "
            "previous mode; multi-block files under both drivers; non-trivial = a file with non-default mode/mtime/xattr/owner was copied")
    assumptions = ["runs as root on tmpfs (user.* xattrs, chown, ns timestamps)", "generated source mtimes are at least a day away from now"]

    def gen_case(self, r, idx, tier):
        driver, workers, bs = gen.pick_config(r, multiblock=True)
        umask = r.choice([0, 0o022])
        ops = [gen.d_op("src"), gen.d_op("dst")]
        flags = {"r": True}
        for k, p in (("no_perms", 0.25), ("no_timestamps", 0.25), ("ownership", 0.35), ("fsync", 0.1)):
            if r.random() < p:
                flags[k] = True
        n = r.randrange(1, 5)
        overwrite = r.random() < 0.4
        if overwrite:
            ops.append(gen.d_op("dst/src"))
        for i in range(n):
            mode = r.choice([r.randrange(0, 0o10000), 0o644, 0o755, 0o4755, 0o2755, 0o6755, 0o1777, 0o600, 0o400, 0o7777, 0])
            mt = r.choice([0, 1, 999_999_999, 1_000_000_000 * r.randrange(1, 1_500_000_000) + r.randrange(0, 1_000_000_000),
                           4_102_444_800_000_000_000 + r.randrange(0, 10 ** 9), 1_234_567_890_123_456_789])
            xa = {}
            for j in range(r.choice([0, 0, 1, 3])):
                xa["user.k%d" % j] = bytes(r.randrange(256) for _ in range(r.randrange(0, 20))).hex()
            uid, gid = r.choice([(0, 0), (1000, 1000), (12345, 54321), (0, 7), (65534, 65534)])
            size = gen.boundary_size(r, bs, cap=(3000 if bs < 64 else 200_000))
            if bs >= 4096 and r.random() < 0.4:
                size = bs * r.randrange(2, 6) + r.choice([0, 1])
            ops.append(gen.f_op("src/f%d" % i, size, pat=r.randrange(1, 1 << 30), mode=mode, mtime=mt, xattrs=xa or None, uid=uid, gid=gid))
            if overwrite and r.random() < 0.7:
                # previous destination: other mode, and an owner that shares one id with the source's
                puid = uid if r.random() < 0.6 else r.choice([0, 1000, 4242])
                pgid = r.choice([gid, 7, 0, 4242])
                ops.append(gen.f_op("dst/src/f%d" % i, r.randrange(0, 2000), pat=3, mode=r.choice([0o600, 0o666, 0o755, 0o4711]), uid=puid, gid=pgid))
        kernel = {}
        if bs >= 4096 and r.random() < 0.3:
            ln, runs = gen.sparse_layout(r, style=r.choice(["inter", "many"]), max_runs=6)
            ops.append(gen.f_op("src/sparse", ln, runs=runs, mode=0o640, mtime=1_111_111_111_222_333_444, xattrs={"user.s": "01"}))
            kernel["fiemap"] = "emulate"
        if r.random() < 0.15:
            kernel["cfr"] = r.choice(["ENOSYS", "EXDEV"])
        inv = gen.mk_inv(["src"], "dst", driver=driver, workers=workers, block_size=bs, **flags)
        return {"setup": ops, "steps": [{"inv": inv}], "umask": umask, "kernel": kernel, "max_events": 400000}

    def is_nontrivial(self, res, verdict, case):
        return any(e["k"] == "f" and e["p"].startswith("src/") and (e["mode"] not in (0o644,) or e.get("xattrs") or e["uid"]) for e in res["pre"])


CHECK = C10
