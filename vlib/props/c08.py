"""C08 — --no-clobber never alters anything that already exists in the destination."""
from .. import gen, oracle
from ..scheck import SCheck


class C08(SCheck):
    prop = "C08"
    level = "exploration"
    default_seed = 8008
    N = {"quick": 600, "thorough": 8000}
    K = {"quick": 3, "thorough": 6}
    technique = "deterministic simulation: seeded schedules (walker's existence check vs busy workers, permuted directory order, starved walker), snapshot oracle on pre-existing destination entries"
    rule = ("case = source tree x destination pre-populated with colliding regular files, directories, live and dangling symlinks, FIFOs/sockets "
            "at any depth (collision early or late in walk order; workers kept busy by multi-block files) with -n; oracle: every pre-existing "
            "destination entry equals its pre-state after every run, and a collision of a file/link/node implies exit != 0; non-trivial = the "
            "run had at least one collision; distinct by (case, signature)")
    assumptions = ["a directory's mtime may change when a non-colliding sibling is created in it"]

    def gen_case(self, r, idx, tier):
        driver, workers, bs = gen.pick_config(r, multiblock=True)
        cap = 3000 if bs < 64 else 150_000
        ops = [gen.d_op("dst"), gen.d_op("elsewhere"), gen.f_op("elsewhere/by", 50, pat=11), gen.d_op("in")]
        n = r.randrange(2, 7)
        srcs = []
        for i in range(n):
            k = r.choice(["file", "file", "file", "big", "dir", "link", "fifo"])
            p = "in/e%d" % i
            if k == "file":
                ops.append(gen.f_op(p, gen.boundary_size(r, bs, cap=cap), pat=r.randrange(1, 1 << 30)))
            elif k == "big":
                ops.append(gen.f_op(p, min(cap, bs * r.randrange(3, 9) + 1), pat=r.randrange(1, 1 << 30)))
            elif k == "dir":
                ops.append(gen.d_op(p))
                ops.append(gen.f_op(p + "/inner", r.randrange(0, 3000), pat=r.randrange(1, 1 << 30)))
                if r.random() < 0.5:
                    ops.append(gen.d_op(p + "/sub"))
                    ops.append(gen.f_op(p + "/sub/deep", 10, pat=4))
            elif k == "link":
                ops.append(gen.l_op(p, r.choice(["e0", "nowhere"])))
            else:
                ops.append(gen.n_op(p, r.choice(["fifo", "sock"]), 0, 0, 0o644))
            srcs.append((p, k))
        # collisions: existing entries at dst/<name> (or below it for directories)
        ncol = r.choice([0, 1, 1, 1, 2, 3])
        for (p, k) in r.sample(srcs, min(ncol, len(srcs))):
            name = p.split("/")[-1]
            tgt = "dst/" + name
            if k == "dir" and r.random() < 0.6:
                # the directory does not exist yet in the destination in most runs (xcp -n refuses existing directories outright)
                continue
            ck = r.choice(["file", "file", "symlink-live", "symlink-dangling", "fifo", "dir"])
            if ck == "file":
                ops.append(gen.f_op(tgt, r.randrange(0, 4000), pat=r.randrange(1, 1 << 30), mode=r.choice([0o600, 0o644, 0o444])))
            elif ck == "dir":
                ops.append(gen.d_op(tgt))
                ops.append(gen.f_op(tgt + "/inner", 20, pat=8))
            elif ck == "symlink-live":
                ops.append(gen.l_op(tgt, "$ROOT/elsewhere/by"))
            elif ck == "symlink-dangling":
                ops.append(gen.l_op(tgt, "$ROOT/elsewhere/new-%d" % len(ops)))
            else:
                ops.append(gen.n_op(tgt, "fifo", 0, 0, 0o600))
        if r.random() < 0.5:
            ops.append(gen.f_op("dst/unrelated", 77, pat=5))
        order = [p for p, _ in srcs]
        r.shuffle(order)
        extra = {}
        if r.random() < 0.3:
            # option combinations: -n together with backups must still leave existing entries alone
            extra["backup"] = r.choice(["numbered", "auto"])
            if extra["backup"] == "auto":
                for (p, k) in srcs[:2]:
                    ops.append(gen.f_op("dst/%s.~%d~" % (p.split("/")[-1], r.choice([1, 4])), 5, pat=2))
        inv = gen.mk_inv(order, "dst", driver=driver, workers=workers, block_size=bs, r=True, n=True, **extra)
        if idx % 9 == 7:
            # two sources of the same name, one of them a symbolic link to an entry that already exists in the destination: whatever
            # xcp makes of the name collision (cp refuses it), the existing entry must not be written through the just-made link
            ops += [gen.d_op("in/x"), gen.d_op("in/y"), gen.f_op("dst/victim", 77, pat=5, mode=0o640), gen.d_op("dst/victimdir"), gen.f_op("dst/victimdir/data", 33, pat=6)]
            tgt = r.choice(["victim", "$ROOT/dst/victim", "victim", "victimdir/data"])
            ops.append(gen.l_op("in/x/l", tgt))
            ops.append(gen.f_op("in/y/l", r.choice([10, 3000, min(cap, bs + 1)]), pat=r.randrange(1, 1 << 30)))
            first = r.choice([["in/x/l", "in/y/l"], ["in/y/l", "in/x/l"]])
            fill = [p for p, k in srcs if k in ("file", "big")][:r.randrange(0, 3)]
            order = r.choice([first + fill, fill + first, first[:1] + fill + first[1:]])
            inv = gen.mk_inv(order, "dst", driver=driver, workers=workers, block_size=bs, r=True, n=True)
        if idx % 9 == 4:
            # -n together with -T: one source (file, link, node or directory) named onto an existing entry / an existing tree
            p0, k0 = srcs[0]
            tname = "dst/t%d" % idx
            ck = r.choice(["file", "file", "symlink-live", "symlink-dangling", "absent"])
            if k0 == "dir":
                ops.append(gen.d_op(tname))
                if r.random() < 0.7:
                    ops.append(gen.f_op(tname + "/inner", 31, pat=6))
            elif ck == "file":
                ops.append(gen.f_op(tname, r.randrange(0, 4000), pat=r.randrange(1, 1 << 30), mode=0o640))
            elif ck == "symlink-live":
                ops.append(gen.l_op(tname, "$ROOT/elsewhere/by"))
            elif ck == "symlink-dangling":
                ops.append(gen.l_op(tname, "$ROOT/elsewhere/new-T"))
            inv = gen.mk_inv([p0], tname, driver=driver, workers=workers, block_size=bs, r=True, n=True, T=True, **extra)
        return {"setup": ops, "steps": [{"inv": inv}], "max_events": 300000}

    def gen_plans(self, r, case, k):
        plans = super().gen_plans(r, case, k)
        if plans:
            plans[-1]["sched"] = dict(plans[-1]["sched"], starve=["walker"], starve_p=0.1)
        return plans

    def is_nontrivial(self, res, verdict, case):
        return verdict is not None and len(verdict.collisions) > 0


CHECK = C08
