"""C20 — open descriptors stay bounded regardless of how many files are copied."""
from .. import gen, oracle
from ..scheck import SCheck
from ..oracle import Finding


class C20(SCheck):
    prop = "C20"
    level = "exploration"
    default_seed = 20020
    N = {"quick": 10, "thorough": 120}
    K = {"quick": 2, "thorough": 4}
    SIZES = {"quick": [600, 1500], "thorough": [600, 1500, 5000, 20000]}
    technique = "deterministic simulation: large trees under RLIMIT_NOFILE=1024 with adversarial seeded schedules (workers starved relative to the dispatcher/walker, PCT); peak descriptor count tracked from the supervisor's fd table"
    rule = ("case = tree of N tiny files (N in {600,1500} quick, up to 20000 thorough) in nested directories x driver x workers in "
            "{1,4,16,64} under RLIMIT_NOFILE=1024; schedules starve the workers (or are PCT/random) so that the producer runs far ahead; "
            "oracle: exit 0 with a complete destination (success is required here), peak open descriptors reported per run and compared "
            "between N and larger N; non-trivial = N > 512 (more files than descriptors/2); distinct by (case, signature)")
    assumptions = ["two descriptors per in-flight file: a count growing with N must hit EMFILE at these N"]

    def gen_case(self, r, idx, tier):
        sizes = self.SIZES[tier]
        # the combinations most likely to exhaust descriptors come first, so that the quick tier covers them
        combos = [(d, w) for w in (64, 16, 1, 4) for d in ("parblock", "parfile")]
        driver, workers = combos[idx % len(combos)]
        n = sizes[(idx // len(combos) + idx) % len(sizes)] if len(sizes) > 1 else sizes[0]
        if idx < len(combos):
            n = max(sizes[:2])
        ops = [gen.d_op("src")]
        sparse = idx % 5 == 2
        per = 400
        for i in range(n):
            d = "src/d%03d" % (i // per)
            if i % per == 0:
                ops.append(gen.d_op(d))
            if sparse:
                # a hole-only tail makes the file look sparse; with an extent map the block driver queues it extent by extent
                ops.append({"op": "file", "p": "%s/f%05d" % (d, i), "len": 4096 + 65536 * (1 + i % 3), "runs": [[0, 4096, i + 1]]})
            else:
                ops.append({"op": "file", "p": "%s/f%05d" % (d, i), "len": 1 + (i % 7), "runs": [[0, 1 + (i % 7), i + 1]]})
        flags = {"r": True}
        if idx % 3 == 1:
            flags["fsync"] = True
        gen.swarm_flags(r, flags, allow=("no_perms", "no_timestamps", "reflink", "no_progress"), p=0.2)
        inv = gen.mk_inv(["src"], "dst", driver=driver, workers=workers, block_size=r.choice([4096, 1 << 20]), **flags)
        kernel = {"fiemap": "emulate"} if (sparse or r.random() < 0.2) else {}
        return {"setup": ops, "steps": [{"inv": inv}], "kernel": kernel, "nofile": 1024, "max_events": 40_000_000, "timeout_s": 600, "n": n}

    def gen_plans(self, r, case, k):
        plans = []
        for j in range(k):
            s = gen.sched_plan(r, est=case["n"] * 30, ustep=0)
            if j % 2 == 0:
                s = dict(s, starve=["worker", "opener"] if case["steps"][0]["inv"]["driver"] == "parfile" else ["worker"], starve_p=0.002)
            plans.append({"seed": r.randrange(1 << 48), "sched": s})
        return plans

    log = "none"

    def evaluate(self, res, verdict, case, step_i, t0, plan):
        f = oracle.termination_findings(res)
        for x in f:
            x.prop, x.cls = "C20", "did-not-finish:" + x.cls
        if not oracle.succeeded(res):
            if res["outcome"]["kind"] == "exit":
                cls = "failed-under-nofile-limit"
                if "os error 24" in res.get("stderr", "") or "Too many open files" in res.get("stderr", ""):
                    cls += ":EMFILE"
                f.append(Finding("C20", cls, "", "exit %s with %d files, peak %d descriptors: %s" % (res["outcome"].get("code"), case["n"], res["stats"]["peak_fds"], res.get("stderr", "")[-200:])))
        elif verdict is not None:
            tf = oracle.check_tree(res, verdict, case["steps"][0]["inv"], case.get("umask", 0o022), t0)
            for x in tf:
                if x.prop in ("C01", "C02"):
                    f.append(Finding("C20", "incomplete:" + x.cls, x.path, x.detail))
                    break
        return f

    def is_nontrivial(self, res, verdict, case):
        return case["n"] > 512

    def run_probes(self, res, verdict, case):
        inv = case["steps"][0]["inv"]
        return {"peak_fds<=%d" % b: 1 for b in (64, 256, 512, 1024) if res["stats"]["peak_fds"] <= b} | {
            "max_peak_fds:%s:w%d:n%d=%d" % (inv["driver"], inv["workers"], case["n"], res["stats"]["peak_fds"]): 1}


CHECK = C20
