"""C16 — invalid invocations are rejected with no side effects."""
from .. import gen, oracle
from ..scheck import SCheck

CLASSES = ["no-source", "missing-source", "missing-source-glob", "dir-without-r", "multi-nondir", "dir-onto-file", "same", "n-and-f",
           "bad-driver", "bad-reflink", "bad-backup", "bad-glob", "only-dest"]


class C16(SCheck):
    prop = "C16"
    level = "exploration"
    default_seed = 16016
    N = {"quick": 780, "thorough": 8000}
    K = {"quick": 1, "thorough": 2}
    technique = "deterministic simulation (input-driven): every rejection class x argument position x destination state under the supervisor; whole-sandbox snapshot before/after + trace shows no mutating call"
    rule = ("case = one rejection class (no source; missing source at each position among valid ones, literally or with --glob; directory "
            "without -r; several sources with a non-directory destination; directory onto an existing file; source identical to the "
            "destination/target; -n with -f; unknown --driver/--reflink/--backup value; malformed glob) x destination state {absent, file, "
            "empty dir, populated dir} x driver; classes are enumerated round-robin; oracle: exit != 0, sandbox byte-identical to its "
            "pre-state, no successful mutating call in the trace; non-trivial = the sandbox holds at least one valid source next to the "
            "offending argument; distinct by (class, position, destination state, signature).  Quantified over inputs only")
    assumptions = ["clap's own rejection of unknown values happens before any file-system access"]

    def gen_case(self, r, idx, tier):
        cls = CLASSES[idx % len(CLASSES)]
        driver = r.choice(["parfile", "parblock"])
        ops = [gen.d_op("a"), gen.f_op("a/x", 100, pat=1), gen.f_op("f1", 500, pat=2), gen.f_op("f2", 70000, pat=3), gen.d_op("d2"), gen.f_op("d2/y", 9, pat=4)]
        dstate = r.choice(["absent", "file", "empty", "populated"])
        if dstate == "file":
            ops.append(gen.f_op("dst", 321, pat=9))
        elif dstate == "empty":
            ops.append(gen.d_op("dst"))
        elif dstate == "populated":
            ops += [gen.d_op("dst"), gen.f_op("dst/keep", 10, pat=8), gen.f_op("dst/f1", 11, pat=7), gen.d_op("dst/a"), gen.f_op("dst/a/x", 3, pat=6)]
        flags = {"r": True}
        valid = ["f1", "f2", "a", "d2"]
        r.shuffle(valid)
        nvalid = r.randrange(0, 4)
        srcs = valid[:nvalid]
        dest = "dst"
        pos = r.randrange(0, len(srcs) + 1)
        if cls == "no-source":
            srcs, dest = [], None
        elif cls == "only-dest":
            srcs, dest = [], "dst"
        elif cls == "missing-source":
            srcs.insert(pos, r.choice(["nonexistent", "a/nope", "dst/nothing", "f1/x"]))
        elif cls == "missing-source-glob":
            flags["glob"] = True
            srcs.insert(pos, r.choice(["nomatch*", "a/zz?", "q"]))
        elif cls == "dir-without-r":
            flags.pop("r")
            srcs = [s for s in srcs if s in ("f1", "f2")]
            pos = r.randrange(0, len(srcs) + 1)
            srcs.insert(pos, r.choice(["a", "d2"]))
        elif cls == "multi-nondir":
            if dstate in ("empty", "populated"):
                dest = r.choice(["dst/keep", "newname"]) if dstate == "populated" else "newname"
            srcs = valid[:r.randrange(2, 5)]
            if r.random() < 0.35:
                # one pattern that expands to several paths
                flags["glob"] = True
                srcs = [r.choice(["f?", "f*", "[fd]?"])]
        elif cls == "dir-onto-file":
            srcs = [r.choice(["a", "d2"])]
            dest = "f1"
        elif cls == "same":
            which = r.choice(["file", "dir", "target", "dot-slash", "dotdot", "hardlink", "symlink", "hardlink-in-dir"])
            if r.random() < 0.5:
                flags["backup"] = r.choice(["numbered", "auto"])
                if flags["backup"] == "auto":
                    ops.append(gen.f_op("f1.~2~", 3, pat=1))
            if which == "file":
                srcs, dest = ["f1"], "f1"
            elif which == "dot-slash":
                srcs, dest = ["f1"], "./f1"
            elif which == "dotdot":
                srcs, dest = ["f1"], "a/../f1"
            elif which == "dir":
                srcs, dest = ["a"], "a"
            elif which == "hardlink":
                ops.append({"op": "hardlink", "p": "f1.hard", "to": "f1"})
                srcs, dest = (["f1"], "f1.hard") if r.random() < 0.5 else (["f1.hard"], "f1")
            elif which == "symlink":
                ops.append(gen.l_op("f1.sym", r.choice(["f1", "$ROOT/f1", "a/../f1"])))
                srcs, dest = ["f1"], "f1.sym"
            elif which == "hardlink-in-dir":
                ops.append(gen.d_op("hd"))
                ops.append({"op": "hardlink", "p": "hd/f2", "to": "f2"})
                srcs, dest = ["f2"], r.choice(["hd", "hd/"])
            else:
                # the mapped target dest/<name> is the source itself
                srcs, dest = ["dst/keep" if dstate == "populated" else "a/x"], ("dst" if dstate == "populated" else "a")
                srcs = srcs if r.random() < 0.5 or len(valid) == 0 else srcs
        elif cls == "n-and-f":
            flags["n"] = True
            flags["f"] = True
            srcs = srcs or ["f1"]
        elif cls == "bad-driver":
            flags["raw"] = ["--driver", "turbo"]
            flags["bad_option"] = True
            driver = None
            srcs = srcs or ["f1"]
        elif cls == "bad-reflink":
            flags["raw"] = ["--reflink", "sometimes"]
            flags["bad_option"] = True
            srcs = srcs or ["f1"]
        elif cls == "bad-backup":
            flags["raw"] = ["--backup", "weekly"]
            flags["bad_option"] = True
            srcs = srcs or ["f1"]
        elif cls == "bad-glob":
            flags["glob"] = True
            flags["bad_glob"] = True
            srcs.insert(pos, r.choice(["a[", "***", "a/[x"]))
        if cls in ("missing-source", "missing-source-glob", "dir-without-r", "bad-glob", "only-dest") and dest is not None and r.random() < 0.35:
            # the destination is given with --target-directory and does not exist (not even its parent): nothing may be created for it
            flags["target_dir"] = True
            dest = r.choice(["newdir", "newdir/out", "dst/deeper/out"])
        inv = gen.mk_inv(srcs, dest, driver=driver, workers=r.choice([1, 4]), block_size=r.choice([4096, 65536]), **flags)
        return {"setup": ops, "steps": [{"inv": inv}], "cls": cls, "dstate": dstate, "pos": pos}

    def is_nontrivial(self, res, verdict, case):
        return verdict is not None and verdict.kind == "reject"

    def run_probes(self, res, verdict, case):
        return {"class:" + case["cls"]: 1, "verdict:" + (verdict.kind if verdict else "none"): 1}


CHECK = C16
