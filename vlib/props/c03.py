"""C03 — sources and bystander files are never modified, even by self-copies, faults or kills."""
from .. import gen, oracle
from ..fcheck import FCheck
from ..oracle import Finding

ALIASES = ["same-name-link-to-source", "dot-slash", "dotdot", "own-dir-dot", "symlink", "hardlink", "T-self-dir", "hardlink-in-destdir", "symlink-in-destdir", "abs-vs-rel",
           "special-dot-slash", "special-own-dir", "special-hardlink", "symlink-source-dot-slash"]


class C03(FCheck):
    prop = "C03"
    level = "fault_enumeration"
    default_seed = 3003
    N = {"quick": 44, "thorough": 1200}
    PER_CASE = {"quick": 36, "thorough": 100000}
    PAIRS = {"quick": 0, "thorough": 10}
    kinds = ("errno", "kill")
    technique = "deterministic simulation: alias grid (path spelling, symlink, hard link) x single-fault enumeration x kill enumeration (SIGKILL before each system call) x extra schedules with user-space preemption on the alias cases; snapshot oracle on every source and bystander in every run"
    rule = ("case = (a) alias invocation: the destination designates the source through ./f, d/../f, its own directory, a symlink, a hard link, "
            "-T onto itself, absolute vs relative spelling; or (b) an ordinary copy next to bystander files, hard links and symlinks pointing out "
            "of the destination; each case runs fault-free, then with one errno at an enumerated call and with SIGKILL at enumerated scheduling "
            "points (quick: stratified sample; thorough: every site); oracle in EVERY run, whatever the exit status: content, kind, mode, "
            "owner, mtime, xattrs of every source and bystander equal the pre-state; non-trivial = alias case, or the fault/kill fired; "
            "distinct by signature")
    assumptions = ["process-kill semantics: every completed system call is visible, nothing else"]

    def gen_case(self, r, idx, tier):
        driver, workers, bs = gen.pick_config(r)
        cap = 3000 if bs < 64 else 60_000
        ops = [gen.d_op("d"), gen.d_op("aux"), gen.f_op("by", 1234, pat=77, mode=0o640, xattrs={"user.note": "6869"}), gen.d_op("bydir"), gen.f_op("bydir/z", 10, pat=5)]
        size = max(1, gen.boundary_size(r, bs, cap=cap))
        ops.append(gen.f_op("f", size, pat=r.randrange(1, 1 << 30), mode=0o644))
        ops.append(gen.f_op("d/g", max(1, gen.boundary_size(r, bs, cap=cap)), pat=r.randrange(1, 1 << 30)))
        ops.append(gen.d_op("d/sub"))
        ops.append(gen.f_op("d/sub/h", 99, pat=3))
        flags = {}
        alias = None
        if idx % 2 == 0:
            alias = ALIASES[(idx // 2) % len(ALIASES)]
            if alias == "same-name-link-to-source":
                # two sources of one name, the first a symbolic link to the second: once the link exists in the destination, the
                # copy of the second source would be written through it into that very source
                ops += [gen.d_op("x"), gen.d_op("y"), gen.d_op("dst")]
                ops.append(gen.f_op("y/conf", max(1, gen.boundary_size(r, bs, cap=cap)), pat=r.randrange(1, 1 << 30), mode=0o640))
                ops.append(gen.l_op("x/conf", r.choice(["$ROOT/y/conf", "../y/conf"]) if False else "$ROOT/y/conf"))
                srcs, dest = r.choice([["x/conf", "y/conf"], ["x/conf", "f", "y/conf"]]), "dst"
                driver = "parblock" if (idx // (2 * len(ALIASES))) % 2 == 0 else "parfile"
                workers = max(workers, 2)
            elif alias == "dot-slash":
                srcs, dest = ["f"], "./f"
            elif alias == "dotdot":
                srcs, dest = ["f"], "aux/../f"
            elif alias == "own-dir-dot":
                srcs, dest = ["d/g"], "./d"
            elif alias == "symlink":
                ops.append(gen.l_op("lnk", "f"))
                srcs, dest = ["f"], "lnk"
            elif alias == "hardlink":
                ops.append({"op": "hardlink", "p": "hl", "to": "f"})
                srcs, dest = ["f"], "hl"
            elif alias == "T-self-dir":
                srcs, dest = ["d"], "./d"
                flags.update(r=True, T=True)
            elif alias == "hardlink-in-destdir":
                ops.append(gen.d_op("dst"))
                ops.append({"op": "hardlink", "p": "dst/f", "to": "f"})
                srcs, dest = ["f"], "dst"
            elif alias == "symlink-in-destdir":
                ops.append(gen.d_op("dst"))
                ops.append(gen.l_op("dst/f", "../f"))
                srcs, dest = ["f"], "dst"
            elif alias == "special-dot-slash":
                ops.append(gen.n_op("node", r.choice(["fifo", "sock", "chr"]), 3, 4, 0o644))
                srcs, dest = ["node"], "./node"
            elif alias == "special-own-dir":
                ops.append(gen.n_op("d/node", r.choice(["fifo", "sock"]), 0, 0, 0o600))
                srcs, dest = ["d/node"], "./d"
            elif alias == "special-hardlink":
                ops.append(gen.n_op("node", "fifo", 0, 0, 0o644))
                ops.append({"op": "hardlink", "p": "node2", "to": "node"})
                srcs, dest = ["node"], "node2"
            elif alias == "symlink-source-dot-slash":
                ops.append(gen.l_op("sl", "f"))
                srcs, dest = ["sl"], "./sl"
            else:
                srcs, dest = ["f"], "$ROOT/f"
            if r.random() < 0.3:
                flags["backup"] = "numbered"
        else:
            # ordinary copy next to bystanders
            ops.append(gen.d_op("dst"))
            ops.append({"op": "hardlink", "p": "by-hl", "to": "by"})
            ops.append(gen.l_op("dst/outlink", "$ROOT/by"))
            if r.random() < 0.5:
                ops.append(gen.f_op("dst/f", 500, pat=8))
            if r.random() < 0.5:
                ops.append(gen.d_op("dst/d"))
                ops.append(gen.f_op("dst/d/g", 20, pat=9))
            srcs, dest = r.choice([["f"], ["d"], ["f", "d"]]), "dst"
            flags["r"] = True
            for k, p in (("fsync", 0.2), ("ownership", 0.2), ("backup", 0.3)):
                if r.random() < p:
                    flags[k] = True if k != "backup" else "numbered"
        inv = gen.mk_inv(srcs, dest, driver=driver, workers=workers, block_size=bs, **flags)
        return {"setup": ops, "steps": [{"inv": inv}], "alias": alias, "max_events": 200000}

    def _tag(self, findings, case):
        if case.get("alias"):
            for f in findings:
                if f.prop == "C03":
                    f.cls += ":alias"
        return findings

    def evaluate(self, res, verdict, case, step_i, t0, plan):
        return self._tag(super().evaluate(res, verdict, case, step_i, t0, plan), case)

    def evaluate_fault(self, res, verdict, case, t0, plan, base):
        return self._tag(super().evaluate_fault(res, verdict, case, t0, plan, base), case)

    EXTRA_SCHED = {"quick": 16, "thorough": 32}

    def items(self, tier, seed):
        for it in super().items(tier, seed):
            it["extra_sched"] = self.EXTRA_SCHED[tier]
            yield it

    def run_item(self, sim, item):
        import random
        from ..campaign import run_step, summarize
        rec = super().run_item(sim, item)
        case = item["case"]
        # the fault and kill runs all follow the baseline's schedule up to the fault; identity checks that race with the thread that
        # publishes what they look up need other schedules: alias cases are re-run fault-free under more plans, all with user-space
        # preemption and long holds (DESIGN 2.7)
        if case.get("alias") and item.get("extra_sched") and not item.get("only"):
            r = random.Random(item["pick_seed"] ^ 0xc03)
            same_name = case.get("alias") == "same-name-link-to-source"
            n_extra = item["extra_sched"] * (30 if same_name else 1)
            if item["extra_sched"] > 16:
                n_extra = item["extra_sched"] * (6 if same_name else 1)  # thorough tier: many more such cases, fewer schedules each
            for j in range(n_extra):
                # (the same-name case races at system-call granularity - a link made between another thread's stat and open - and
                # is hit by roughly one schedule in a hundred: many cheap schedules, few of them stepped)
                sp = gen.sched_plan(r, ustep=0.2 if same_name else 1.0)
                sp["ustep_budget"] = 200
                if "ustep_hold" in sp:
                    sp["ustep_hold"] = r.choice([8, 40, 400])
                plan = {"seed": r.randrange(1 << 48), "sched": sp}
                res, verdict, t0 = run_step(sim, case, 0, plan, self.log)
                f = self.evaluate(res, verdict, case, 0, t0, plan)
                rec["runs"].append(summarize(res, f, plan, {"nontrivial": True, "probes": {"extra-stepping-schedules": 1}}))
        if item["case"].get("alias") and rec["runs"]:
            rec["runs"][0]["nontrivial"] = True
            rec["probes"] = {"alias:" + item["case"]["alias"]: 1}
        return rec


CHECK = C03
