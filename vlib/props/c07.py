"""C07 — xcp always terminates: no deadlock, no spin, with or without errors."""
from .. import gen, oracle
from ..fcheck import FCheck
from .c12 import probe_argv


class C07(FCheck):
    prop = "C07"
    level = "exploration"
    default_seed = 7007
    ustep_rate = 0.35
    N = {"quick": 80, "thorough": 2000}
    PER_CASE = {"quick": 30, "thorough": 100000}
    PAIRS = {"quick": 0, "thorough": 20}
    kinds = ("errno",)
    needs_probe = True
    technique = "deterministic simulation: exact deadlock detection over emulated futex queues (timed waits on the simulated clock, seeded time jumps), step budget and CPU-spin guard in every run; seeded schedules (incl. starved workers / starved dispatcher) and single-fault enumeration; API probe for the library clause"
    rule = ("case = tree incl. FIFOs and sockets (never opened: the simulated kernel models an open of a peerless FIFO as blocking forever), "
            "empty trees, multi-block files exceeding the 128-job pool queue, -w up to 64, both drivers; one case in four through the API "
            "probe (copy() in a thread or inline, ChannelUpdater / recording / Noop); each case runs fault-free under a seeded schedule "
            "(random / PCT / run-to-block, optionally starving workers or the walker) and then with one errno at enumerated calls; oracle: the "
            "run ends (no deadlock: no thread ready while some are blocked; within 20x the fault-free step count + 5000 after a fault; no "
            "user-space spin), and for the probe the channel iteration ends; non-trivial = >= 4 threads; distinct by signature")
    assumptions = ["liveness is bounded: budget = 20 x fault-free steps + 5000 scheduling decisions", "timed waits do not occur in xcp (the simulated clock path is present but unused)"]

    def gen_case(self, r, idx, tier):
        driver, workers, bs = gen.pick_config(r, multiblock=True)
        cap = 3000 if bs < 64 else 150_000
        shape = r.choice(["specials", "empty", "manyblocks", "plain", "plain", "manyfiles", "past-eof"])
        kern_extra = {}
        if idx % 16 == 5:
            shape = "manyfiles-special"
        forced_blocks = idx % 16 in (9, 10)
        if forced_blocks:
            # every seed gets the block driver with a single worker behind a full pool queue, once with whole-block transfers and
            # once with short ones (these were drawn at random before and seed 1 happened to have neither)
            shape = "manyblocks"
        ops = [gen.d_op("src")]
        if shape == "specials":
            ops = gen.small_tree(r, "src", nfiles=r.randrange(0, 4), links=True, specials=True, sizes=lambda rr: gen.boundary_size(rr, bs, cap=cap), bs=bs)
            ops.append(gen.n_op("src/pipe", "fifo", 0, 0, 0o644))
        elif shape == "empty":
            if r.random() < 0.5:
                ops.append(gen.d_op("src/e1"))
                ops.append(gen.d_op("src/e1/e2"))
        elif shape == "manyblocks":
            bs = r.choice([4096, 1000])
            workers = r.choice([1, 1, 2, workers])
            if forced_blocks:
                driver, workers = "parblock", 1
            if (idx % 16 == 10) if forced_blocks else (r.random() < 0.6):
                # this kernel moves fewer bytes per call than a block: every block job sees short counts while the pool queue is full
                kern_extra = {"max_io": r.choice([bs // 2, bs - 1, 512])}
            for i in range(r.randrange(1, 3)):
                ops.append(gen.f_op("src/m%d" % i, bs * r.randrange(130, 300), pat=r.randrange(1, 1 << 30)))
        elif shape == "manyfiles":
            for i in range(r.randrange(20, 150)):
                ops.append(gen.f_op("src/n%03d" % i, r.randrange(0, 200), pat=i + 1))
        elif shape == "manyfiles-special":
            # a special file whose creation fails is the first operation; more entries than any reasonable queue bound follow
            workers = r.choice([1, 1, 2, 3])
            for w in range(workers):
                ops.append(gen.n_op("src/%dpipe" % w, r.choice(["fifo", "sock"]), 0, 0, 0o644))
            ops.append(gen.d_op("src/big"))
            for i in range(r.randrange(1100, 1400)):
                if i % 300 == 0:
                    ops.append(gen.d_op("src/big/d%d" % (i // 300)))
                ops.append({"op": "file", "p": "src/big/d%d/n%04d" % (i // 300, i), "len": i % 5, "runs": [[0, i % 5, i + 1]] if i % 5 else []})
            ops.append(gen.d_op("dst"))
            for w in range(workers):
                ops.append(gen.d_op("dst/%dpipe" % w))
            driver = r.choice(["parfile", "parfile", "parfile", "parblock"])
            multi_src = ["src/%dpipe" % w for w in range(workers)] + ["src/big"]
        elif shape == "past-eof":
            # a sparse file whose extent map reaches beyond EOF (rounded last extent, preallocation): block jobs past EOF
            driver = "parblock"
            bs = r.choice([512, 1000, 4096])
            ln, runs = gen.sparse_layout(r, style=r.choice(["tail-unaligned", "inter", "trail"]), max_runs=3)
            ops.append(gen.f_op("src/sp", ln, runs=runs))
            past_eof = True
        else:
            ops = gen.small_tree(r, "src", nfiles=r.randrange(1, 7), links=True, specials=r.random() < 0.2, sizes=lambda rr: gen.boundary_size(rr, bs, cap=cap), bs=bs)
        flags = {"r": True}
        if r.random() < 0.15:
            flags["fsync"] = True
        if r.random() < 0.15:
            flags["n"] = True
        gen.swarm_flags(r, flags, allow=("ownership", "no_perms", "no_timestamps", "reflink"), p=0.2 if shape == "specials" else 0.08)
        if r.random() < 0.3:
            ops.append(gen.d_op("dst"))
        if idx % 20 == 7 and shape not in ("manyfiles-special", "past-eof"):
            # a regular file mapped onto an existing FIFO in the destination
            ops.append(gen.f_op("src/onto", 100, pat=5))
            ops.append(gen.d_op("dst"))
            ops.append(gen.d_op("dst/src"))
            ops.append(gen.n_op("dst/src/onto", "fifo", 0, 0, 0o644))
            flags.pop("n", None)
        inv = gen.mk_inv(multi_src if shape == "manyfiles-special" else ["src"], "dst", driver=driver, workers=workers, block_size=bs, **flags)
        if shape == "manyfiles-special":
            inv["flags"].pop("n", None)
        case = {"setup": ops, "steps": [{"inv": inv}], "max_events": 200_000, "timeout_s": 30}
        if kern_extra:
            case["kernel"] = dict(kern_extra)
        if r.random() < 0.3:
            case.setdefault("kernel", {})["time_jump_p"] = r.choice([0.02, 0.1, 0.5])
        if shape == "past-eof":
            case["kernel"] = {"fiemap": "emulate", "fiemap_round_eof": r.random() < 0.7, "fiemap_past_eof": r.choice([0, 4096, 65536])}
            if not case["kernel"]["fiemap_round_eof"] and not case["kernel"]["fiemap_past_eof"]:
                case["kernel"]["fiemap_past_eof"] = 8192
            case["steps"][0]["inv"]["flags"].pop("n", None)
        if idx % 4 == 3 and shape not in ("manyfiles-special", "past-eof"):
            inv["workers"] = min(inv["workers"], 16)
            updater = r.choice(["record", "channel", "noop"])
            mode = r.choice(["thread", "inline"])
            case["bin"] = "probe"
            case["steps"][0]["argv"] = probe_argv(inv, updater, mode)
            case["probe"] = updater + "/" + mode
        return case

    def items(self, tier, seed):
        for it in super().items(tier, seed):
            r = gen.rng_for(seed, self.prop, it["case_id"], "starve")
            c = r.random()
            if c < 0.25:
                it["plan"]["sched"] = dict(it["plan"]["sched"], starve=["worker"], starve_p=0.02)
            elif c < 0.4:
                it["plan"]["sched"] = dict(it["plan"]["sched"], starve=["walker"], starve_p=0.05)
            elif c < 0.5:
                it["plan"]["sched"] = dict(it["plan"]["sched"], starve=["opener"], starve_p=0.05)
            yield it

    def run_item(self, sim, item):
        rec = super().run_item(sim, item)
        for run in rec["runs"]:
            run["nontrivial"] = run.get("threads", 0) >= 4
        pr = {}
        if item["case"].get("probe"):
            pr["probe:" + item["case"]["probe"]] = 1
        if rec["runs"] and rec["runs"][0].get("kernel_fired", {}).get("yield", 0) > 0:
            pr["runs-with-yields"] = 1
        rec["probes"] = pr
        return rec


CHECK = C07
