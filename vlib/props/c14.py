"""C14 — FIFOs, sockets and character devices are recreated as identical nodes."""
from .. import gen, oracle
from ..scheck import SCheck
from ..oracle import Finding


class C14(SCheck):
    prop = "C14"
    level = "exploration"
    default_seed = 14014
    N = {"quick": 400, "thorough": 8000}
    K = {"quick": 3, "thorough": 4}
    technique = "deterministic simulation: seeded schedules (umask, mknod, mkdir of different threads interleaved), one injected errno at mknod/unlink calls, snapshot oracle (node type, rdev, mode) + supervisor trace (no open/read of a special source)"
    rule = ("case = FIFOs / sockets / character devices with random (major, minor) and modes, as sole source or inside a tree, umask in {0,022}, "
            "fresh or existing destination entry, optionally --no-clobber / --ownership / --no-perms, up to five nodes per run, block devices (must fail); x driver x 3 schedules (umask, mknod and mkdir calls of different threads interleave), plus one errno at sampled mknod/unlink calls; non-trivial = at "
            "least one special node was selected; distinct by signature")
    assumptions = ["runs as root (mknod of device nodes)", "nodes are created on tmpfs and never opened by the harness"]

    def gen_case(self, r, idx, tier):
        driver, workers, bs = gen.pick_config(r)
        umask = r.choice([0, 0o022])
        ops = [gen.d_op("src")]
        specials = []
        n = r.randrange(1, 6)  # several nodes per run: helpers that touch process-wide state (umask) meet each other
        sub = r.random() < 0.4
        if sub:
            ops.append(gen.d_op("src/sub"))
        for i in range(n):
            k = r.choice(["fifo", "sock", "chr", "chr"])
            p = ("src/sub/" if sub and r.random() < 0.5 else "src/") + "n%d" % i
            ops.append(gen.n_op(p, k, r.randrange(0, 4096), r.randrange(0, 1 << 20), r.choice([0o644, 0o600, 0o666, 0o620, 0o4755, 0o777, 0o666, 0o660])))
            specials.append(p)
        if r.random() < 0.5:
            ops.append(gen.f_op("src/plain", r.randrange(0, 5000), pat=7))
        blk = r.random() < 0.08
        if blk:
            ops.append(gen.n_op("src/blk", "blk", 8, r.randrange(0, 16), 0o660))
        flags = {}
        sole = (not sub) and r.random() < 0.3
        existing = r.random() < 0.35
        if r.random() < 0.25:
            flags["n"] = True
        gen.swarm_flags(r, flags, allow=("ownership", "no_perms", "no_timestamps", "fsync"), p=0.15)
        if sole:
            srcs = [specials[0]]
            dest = "out"
            if existing:
                # an existing entry at the destination path
                ops.append(gen.n_op("out", "fifo", 0, 0, 0o600) if r.random() < 0.5 else gen.f_op("out", 10, pat=3))
        else:
            flags["r"] = True
            srcs = ["src"]
            dest = "dst"
            ops.append(gen.d_op("dst"))
            if existing:
                ops.append(gen.d_op("dst/src"))
                if sub:
                    ops.append(gen.d_op("dst/src/sub"))
                v = specials[0]
                ops.append(gen.n_op("dst/" + v, r.choice(["fifo", "sock"]), 0, 0, 0o600))
        inv = gen.mk_inv(srcs, dest, driver=driver, workers=workers, block_size=bs, **flags)
        return {"setup": ops, "steps": [{"inv": inv}], "umask": umask}

    FAULT_N = {"quick": 4, "thorough": 40}

    def fault_site(self, ev, case):
        # a refused node creation must fail the run or leave a correct node, whatever fallback there is
        return ev["c"] in ("mknod", "mknodat", "unlink", "unlinkat")

    def fault_errnos(self, ev):
        from ..fcheck import errnos_for
        return errnos_for(ev) + (["EOPNOTSUPP", "ENOSYS"] if ev["c"].startswith("mknod") else [])

    def evaluate(self, res, verdict, case, step_i, t0, plan):
        f = super().evaluate(res, verdict, case, step_i, t0, plan)
        # supervisor trace: a special source is never opened or read
        special_objs = {e["o"]: e["p"] for e in res["pre"] if e["k"] in ("p", "s", "c", "b") and e["p"].startswith("src")}
        for ev in res.get("events", []):
            if ev["c"] in ("openat", "open") and ev.get("o") in special_objs and not (ev.get("flags", 0) & 0o10000000):
                f.append(Finding("C14", "special-source-opened", special_objs[ev["o"]], "open of a special source file (event %d, result %s)" % (ev["i"], ev.get("r"))))
                break
            if ev["c"] in ("read", "pread64") and ev.get("fdo") in special_objs:
                f.append(Finding("C14", "special-source-read", special_objs[ev["fdo"]], "read of a special source file"))
                break
        return f

    def is_nontrivial(self, res, verdict, case):
        return verdict is not None and any(k in ("p", "s", "c") for (_, _, k, _) in verdict.selected)


CHECK = C14
