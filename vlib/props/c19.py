"""C19 — libfs sparse maps never hide data: every byte outside reported ranges is zero."""
from .. import gen, oracle
from ..scheck import SCheck
from ..oracle import Finding
from ..campaign import run_step, summarize
from ..fcheck import errnos_for, robust_plan


def parse_ranges(s):
    out = []
    for part in s.split(","):
        part = part.strip()
        if part:
            a, b = part.split("-")
            out.append((int(a), int(b)))
    return out


def covered(segs, ranges):
    """every byte of every seg lies in some range; returns the first uncovered offset or None"""
    import bisect
    rs = sorted(ranges)
    starts = [x for x, _ in rs]
    # furthest end among ranges starting at or before index i (ranges may overlap when the implementation is wrong)
    far = []
    m = -1
    for _, y in rs:
        m = max(m, y)
        far.append(m)
    for a, b in segs:
        pos = a
        while pos < b:
            i = bisect.bisect_right(starts, pos) - 1
            if i < 0 or far[i] <= pos:
                return pos
            pos = far[i]
    return None


def ordered(ranges):
    for i, (a, b) in enumerate(ranges):
        if b < a:
            return False
        if i and a < ranges[i - 1][1]:
            return False
    return True


class C19(SCheck):
    prop = "C19"
    level = "exploration"
    default_seed = 19019
    N = {"quick": 500, "thorough": 8000}
    K = {"quick": 1, "thorough": 1}
    needs_probe = True
    technique = "deterministic simulation of an API probe calling libfs under emulated FIEMAP paging variants and native SEEK_DATA/SEEK_HOLE; data map read back from the file as oracle; one injected errno at sampled lseek/FIEMAP calls; seeded sampling for merge_extents"
    rule = ("case = file layout with 0, 1, 31, 32, 33 .. 100 data runs (and, once per 150 cases, more than 8192 extents), data at the very start/end, sizes not multiples of 4 KiB, x FIEMAP answered "
            "by the simulated kernel (whole extents / split into adjacent 4-8 KiB extents / last extent rounded past EOF / EOPNOTSUPP) ; the "
            "probe prints map_extents, merge_extents(map_extents) and the next_sparse_segments walk; oracle: ranges ordered and non-overlapping "
            "and every data page of the file (SEEK_DATA map, all bytes non-zero by construction) lies inside a reported range; plus 40 seeded "
            "sorted extent lists per case through merge_extents; each case is also re-run with one errno (EIO, EINVAL, EOVERFLOW, EINTR, ENOMEM) at sampled lseek / FIEMAP calls: an error result is fine, a returned map must still cover all data: output ordered, covers the union, begins/ends at input boundaries; "
            "non-trivial = the file has at least one hole and one data run; distinct by (case, signature).  The 'exhaustive over a bounded "
            "universe' clause for merge_extents is NOT claimed: lists are sampled")
    assumptions = ["tmpfs reports data at 4 KiB page granularity", "FIEMAP emulation implements the ext4-checked contract of DESIGN Appendix A and nothing else"]

    NFAULT = {"quick": 3, "thorough": 60}

    def items(self, tier, seed):
        for it in super().items(tier, seed):
            it["nfault"] = self.NFAULT[tier]
            yield it

    def gen_case(self, r, idx, tier):
        nruns = r.choice([0, 1, 2, 3, 5, 31, 32, 33, 40, 64, 65, 100])
        huge = idx % 150 == 7  # more than 8192 extents: several hundred FIEMAP pages (one long data run reported as 4 KiB extents)
        pos = 0 if r.random() < 0.5 else 4096 * r.randrange(1, 300)
        runs = []
        for j in range(nruns):
            ln = 4096 * r.randrange(1, 4)
            runs.append([pos, ln, r.randrange(1, 1 << 30)])
            pos += ln + 4096 * r.choice([1, 2, 16, 256, 300])
        if runs and r.random() < 0.5:
            # data up to the very end, unaligned EOF
            pos = runs[-1][0] + runs[-1][1]
            if r.random() < 0.6:
                cut = r.randrange(1, 4096)
                runs[-1][1] -= cut
                pos -= cut
        elif r.random() < 0.3:
            pos += r.randrange(1, 4096)
        if huge:
            pos = 4096 * r.randrange(0, 3)
            runs = [[pos, 4096 * r.randrange(8200, 8700), r.randrange(1, 1 << 30)]]
            pos = runs[0][0] + runs[0][1] + 4096 * r.choice([0, 1, 300])
            runs.append([pos, 4096 * r.randrange(1, 30), 77])
            pos = runs[1][0] + runs[1][1]
        size = pos
        ops = [gen.f_op("file", size, runs=runs)]
        kernel = {}
        c = r.random()
        if huge:
            kernel = {"fiemap": "emulate", "fiemap_split": 4096}
        elif c < 0.75:
            kernel["fiemap"] = "emulate"
            if r.random() < 0.4:
                kernel["fiemap_split"] = r.choice([4096, 8192])
            if r.random() < 0.4:
                kernel["fiemap_round_eof"] = True
            if r.random() < 0.4:
                kernel["fiemap_flagbits"] = r.choice(gen.FIEMAP_FLAGBITS)
            if r.random() < 0.2:
                kernel["fiemap_past_eof"] = r.choice([4096, 65536])
        elif c < 0.85:
            kernel["fiemap"] = "EOPNOTSUPP"
        # seeded extent lists for merge_extents
        lists = []
        for _ in range(40):
            n = r.randrange(0, 7)
            p = r.randrange(0, 5)
            ex = []
            for _ in range(n):
                ln = r.randrange(1, 6)
                ex.append((p, p + ln))
                p += ln + r.choice([0, 0, 1, 1, 2, 3])
            lists.append(ex)
        files = ["file"]
        if r.random() < 0.4 and not huge:
            # another file is mapped first by the same thread (more than 32 extents half of the time, so that its map is paged)
            n1 = r.choice([1, 3, 33, 40, 70])
            pos1, runs1 = 0, []
            for j in range(n1):
                runs1.append([pos1, 4096, r.randrange(1, 1 << 30)])
                pos1 += 4096 * r.choice([2, 17])
            ops.insert(0, gen.f_op("first", pos1, runs=runs1))
            files = ["first", "file"]
        argv_map = ["xcpprobe", "libfs-map"] + files
        argv_merge = ["xcpprobe", "libfs-merge"] + [",".join("%d-%d" % e for e in l) if l else "," for l in lists]
        return {"setup": ops, "bin": "probe", "steps": [{"argv": argv_map}, {"argv": argv_merge}], "kernel": kernel, "lists": lists, "max_events": 100000}

    def evaluate(self, res, verdict, case, step_i, t0, plan):
        f = oracle.termination_findings(res)
        out = res.get("stdout", "")
        if step_i == 0:
            pre = {e["p"]: e for e in res["pre"]}
            post = {e["p"]: e for e in res["post"]}
            # one section per mapped file ("FILE <name>" header)
            sections, cur = [], ("file", [])
            for line in out.splitlines():
                if line.startswith("FILE "):
                    if cur[1]:
                        sections.append(cur)
                    cur = (line[5:].strip(), [])
                else:
                    cur[1].append(line)
            sections.append(cur)
            for fname, lines in sections:
                if fname not in pre:
                    continue
                f += self._judge_section(fname, lines, pre, post)
        else:
            lines = [l for l in out.splitlines() if l.startswith("M")]
            lists = case["lists"]
            if len(lines) != len(lists):
                f.append(Finding("C19", "merge-output-count", "", "expected %d merged lists, got %d" % (len(lists), len(lines))))
            for inp, line in zip(lists, lines):
                inp = [tuple(x) for x in inp]
                if line.startswith("M-ERR"):
                    f.append(Finding("C19", "merge-error", "", line))
                    continue
                outp = parse_ranges(line[2:])
                if not ordered(outp):
                    f.append(Finding("C19", "merge-unordered", "", "merge_extents(%s) = %s" % (inp, outp)))
                    continue
                if covered(inp, outp) is not None:
                    f.append(Finding("C19", "merge-drops-coverage", "", "merge_extents(%s) = %s" % (inp, outp)))
                    continue
                starts = set(a for a, b in inp)
                ends = set(b for a, b in inp)
                if any(a not in starts or b not in ends for a, b in outp):
                    f.append(Finding("C19", "merge-invents-boundary", "", "merge_extents(%s) = %s" % (inp, outp)))
        return f


    def _judge_section(self, fname, lines, pre, post):
        f = []
        segs = [tuple(x) for x in pre[fname].get("segs", [])]
        size = pre[fname]["size"]
        if post.get(fname, {}).get("h") != pre[fname].get("h"):
            f.append(Finding("C19", "file-modified", fname, "the probed file changed"))
        # a walk that ended in a reported error is incomplete by declaration: its partial list is not a claim
        failed_tags = set(l.partition(" ")[0][:-4] for l in lines if l.partition(" ")[0].endswith("-ERR"))
        for line in lines:
            tag, _, rest = line.partition(" ")

            if tag in failed_tags:
                continue
            if tag in ("EXTENTS", "MERGED", "SEGMENTS"):
                rg = parse_ranges(rest)
                if not ordered(rg):
                    f.append(Finding("C19", "unordered:" + tag.lower(), fname, "%s ranges are not ordered / overlap: %s" % (tag, rg[:8])))
                miss = covered(segs, rg)
                if miss is not None:
                    f.append(Finding("C19", "data-outside-ranges:" + tag.lower(), fname,
                                     "byte %d holds data but lies outside every %s range (size %d, %d data runs, %d ranges)" % (miss, tag, size, len(segs), len(rg))))
            elif tag.endswith("-ERR") or tag == "ERR":
                if tag == "SEGMENTS-ERR" or tag == "EXTENTS-ERR" or tag == "MERGED-ERR":
                    f.append(Finding("C19", "error:" + tag.lower(), fname, line))
        return f

    def run_item(self, sim, item):
        """after the fault-free run: one errno at sampled lseek / FIEMAP calls of the probe; libfs may then report an error, but a map it
        does return must still cover every data byte"""
        import random
        rec = super().run_item(sim, item)
        nf = item.get("nfault", 0)
        if not nf:
            return rec
        case, plan = item["case"], item["plans"][0]
        res, _, _ = run_step(sim, case, 0, plan, "sandbox")
        sites = [ev for ev in res.get("events", []) if ev.get("site") is not None and (ev["c"] == "lseek" or (ev["c"] == "ioctl" and ev.get("req") == "FIEMAP"))]
        rr = random.Random(plan["seed"] ^ 0x19)
        # (EOPNOTSUPP from a later FIEMAP page: "unsupported" must mean no map at all, never a partial one)
        cands = [(ev, e) for ev in sites for e in (errnos_for(ev) + (["EOPNOTSUPP"] if ev["c"] == "ioctl" else []))]
        rr.shuffle(cands)
        for ev, e in cands[:nf]:
            p2 = dict(plan, faults=[{"site": ev["site"], "errno": e}])
            res2, v2, t2 = run_step(sim, case, 0, p2, "sandbox")
            f2 = [x for x in self.evaluate(res2, v2, case, 0, t2, p2) if not x.cls.startswith("error:")]
            for x in f2:
                if x.prop == "C19" and x.cls.startswith("data-outside-ranges"):
                    x.cls += ":after-" + ev["c"] + "-" + e
            fired = any(x.get("fired") for x in res2["stats"].get("faults", []))
            rec["runs"].append(summarize(res2, f2, robust_plan(p2, res2), {"nontrivial": bool(fired), "step": 0, "probes": {"fault:%s:%s" % (ev["c"], e): 1}}))
        return rec

    def is_nontrivial(self, res, verdict, case):
        for e in res["pre"]:
            if e["p"] == "file":
                return len(e.get("segs", [])) >= 1 and e.get("blocks", 0) * 512 < e.get("size", 0)
        return False

    def run_probes(self, res, verdict, case):
        k = case.get("kernel", {})
        return {"fiemap:" + str(k.get("fiemap", "native")) + ("+split" if k.get("fiemap_split") else "") + ("+round" if k.get("fiemap_round_eof") else ""): 1}


CHECK = C19
