"""C01 — exit 0 implies every copied regular file is byte-identical to its source."""
from .. import gen, oracle
from ..scheck import SCheck


class C01(SCheck):
    prop = "C01"
    level = "exploration"
    default_seed = 1001
    N = {"quick": 500, "thorough": 6000}
    K = {"quick": 3, "thorough": 6}
    technique = "deterministic simulation: seeded schedules x simulated per-call kernel I/O limit, snapshot oracle (size + content hash)"
    rule = ("case = 1-4 regular files with sizes at block / kernel-limit boundaries (0, 1, kB-1, kB, kB+1, >M), dense or holey layouts, prior "
            "destination absent/shorter/longer/same length; x driver x workers x block size (incl. --no-progress) x reflink {auto,never} x "
            "kernel per-call limit M in {none,1,7,4096,65536}; distinct = distinct (thread, call) signature; non-trivial = at least one data "
            "byte was copied (file size > 0); thorough tier only: one file larger than 2 GiB copied in a single request by both drivers with "
            "no clamp, so that the real kernel's short count (2 GiB - 4 KiB) is met")
    assumptions = ["kernel per-call limit simulated by clamping the length argument (stands in for MAX_RW_COUNT on > 2 GiB files)",
                   "file data <= 300 KiB per file (apparent size up to 64 MiB), except the one > 2 GiB calibration case of the thorough tier"]

    def gen_plans(self, r, case, k):
        if case.get("huge"):
            return [{"seed": r.randrange(1 << 48), "sched": {"kind": "random"}, "inv_override": {"driver": d}} for d in ("parblock", "parfile")]
        return super().gen_plans(r, case, k)

    def gen_case(self, r, idx, tier):
        if tier == "thorough" and idx == 5:
            # calibration of the simulated per-call limit against the real one: a file larger than the kernel's MAX_RW_COUNT
            # (2 GiB - 4 KiB) copied in one request (--no-progress) with no clamp at all; the real kernel returns the short count
            size = (1 << 31) + r.randrange(1, 1 << 20)
            ops = [gen.d_op("src"), gen.d_op("dst"), gen.f_op("src/huge", size, pat=r.randrange(1, 1 << 30))]
            inv = gen.mk_inv(["src/huge"], "dst", driver="parblock", workers=2, block_size=65536, no_progress=True, reflink="never")
            return {"setup": ops, "steps": [{"inv": inv}], "kernel": {}, "max_events": 400000, "timeout_s": 180, "huge": True}
        driver, workers, bs = gen.pick_config(r)
        M = r.choice([None, None, 1, 7, 4096, 65536])
        no_progress = r.random() < 0.2
        cap = 300_000
        if bs < 64 or (M is not None and M < 64):
            cap = 3000
        ops = [gen.d_op("src"), gen.d_op("dst")]
        nf = r.randrange(1, 5)
        for i in range(nf):
            name = "f%d" % i
            if r.random() < 0.3 and cap > 3000:
                ln, runs = gen.sparse_layout(r, max_runs=4)
                ops.append(gen.f_op("src/" + name, ln, runs=runs))
                size = ln
                if r.random() < 0.6:
                    # previous destination with data exactly where the source has holes
                    holes = []
                    pos = 0
                    for a, l, _ in runs:
                        if a - pos >= 8192:
                            holes.append((pos, a))
                        pos = a + l
                    if ln - pos >= 8192:
                        holes.append((pos, ln))
                    pruns = []
                    for (a, b) in r.sample(holes, min(len(holes), 2)):
                        start = (a + 4096 * r.randrange(0, max(1, (b - a) // 4096 - 1))) & ~4095
                        plen = min(b - start, 4096 * r.randrange(1, 9))
                        if plen > 0:
                            pruns.append([start, plen, r.randrange(1, 1 << 30)])
                    pruns.sort()
                    plen_total = r.choice([ln, ln + 4096, max(x[0] + x[1] for x in pruns) if pruns else ln])
                    if pruns:
                        pruns = [x for x in pruns if x[0] + x[1] <= plen_total]
                        ops.append(gen.f_op("dst/" + name, plen_total, runs=pruns))
                    continue
            else:
                size = gen.boundary_size(r, bs, M, cap)
                ops.append(gen.f_op("src/" + name, size, pat=r.randrange(1, 1 << 30)))
            prior = r.choice(["absent", "absent", "shorter", "longer", "same"])
            if prior != "absent":
                psz = {"shorter": max(0, size // 2 - 1), "longer": min(size + 1 + r.randrange(0, 5000), size + 70000), "same": size}[prior]
                if psz <= 400_000:
                    ops.append(gen.f_op("dst/src/" + name if False else "dst/" + name, psz, pat=r.randrange(1, 1 << 30)))
        flags = {}
        if no_progress:
            flags["no_progress"] = True
        flags["reflink"] = r.choice(["auto", "never"])
        srcs = ["src/f%d" % i for i in range(nf)]
        inv = gen.mk_inv(srcs, "dst", driver=driver, workers=workers, block_size=bs, **flags)
        kernel = {}
        if M is not None:
            kernel["max_io"] = M
        has_sparse = any(o.get("op") == "file" and o["p"].startswith("src/") and o.get("runs") is not None and sum(x[1] for x in o["runs"]) < o["len"] - 65536 for o in ops)
        if r.random() < (0.7 if has_sparse else 0.2):
            kernel["fiemap"] = "emulate"
            if r.random() < 0.5:
                # informational extent flags (unwritten, delalloc, merged, shared, not-aligned): such extents still hold data
                kernel["fiemap_flagbits"] = r.choice(gen.FIEMAP_FLAGBITS)
            if r.random() < 0.3:
                kernel["fiemap_split"] = 4096
        return {"setup": ops, "steps": [{"inv": inv}], "kernel": kernel, "max_events": 400000}

    def evaluate(self, res, verdict, case, step_i, t0, plan):
        f = super().evaluate(res, verdict, case, step_i, t0, plan)
        if case.get("kernel", {}).get("max_io") is not None:
            for x in f:
                if x.prop == "C01":
                    x.cls += ":kernel-limit:" + case["steps"][0]["inv"]["driver"]
        return f

    def is_nontrivial(self, res, verdict, case):
        return any(e["k"] == "f" and e.get("size", 0) > 0 for e in res["pre"] if e["p"].startswith("src/"))


CHECK = C01
