"""C06 — outcome independent of thread interleaving, worker count and driver."""
from .. import gen, oracle
from ..scheck import SCheck, tree_digest
from ..oracle import Finding


class C06(SCheck):
    prop = "C06"
    level = "exploration"
    default_seed = 6006
    N = {"quick": 60, "thorough": 1500}
    K = {"quick": 8, "thorough": 32}
    compare_runs = True
    ustep_rate = 0.35
    technique = "deterministic simulation: seeded random / PCT / run-to-block schedules with preemption at system calls and (single-stepping) after atomic instructions in user space, cross-run comparison"
    rule = ("case = small tree (files at block boundaries, multi-block files, nested dirs, links) x options; each case runs under K schedules "
            "spread over both drivers, workers in {1,2,4,16,64} and scheduler kinds; distinct = distinct (thread, call) sequence signature; "
            "non-trivial = at least 3 threads issued sandbox calls")
    assumptions = ["preemption at system-call boundaries and at seeded points after atomic instructions (DESIGN 2.7)", "tmpfs stands in for the file system", "trees are small (<= ~20 entries)"]

    def gen_case(self, r, idx, tier):
        if idx % 6 == 3:
            # race shape: many files of two or three blocks, so that the last two holders of a file's handle (two block jobs, or a
            # job and the dispatcher) finish close together many times per run; every schedule of such a case also preempts in
            # user space (DESIGN 2.7)
            bs = r.choice([4096, 8192])
            ops = [gen.d_op("src")]
            for i in range(r.randrange(10, 20)):
                ops.append(gen.f_op("src/t%02d" % i, bs * r.choice([1, 2, 2, 3]) + r.choice([0, 1, 100]), pat=r.randrange(1, 1 << 30),
                                    mode=r.choice([0o640, 0o600, 0o755]), mtime=1_000_000_000_000_000_000 + i))
            flags = {"r": True}
            if r.random() < 0.3:
                flags["fsync"] = True
            inv = gen.mk_inv(["src"], "dst", block_size=bs, **flags)
            return {"setup": ops, "steps": [{"inv": inv}], "kernel": {}, "max_events": 400000, "race_shape": True}
        bs = r.choice([4096, 65536, 7, 1 << 20, 1000])
        cap = 40_000 if bs < 64 else 200_000
        ops = gen.small_tree(r, "src", nfiles=r.randrange(2, 9), links=True, specials=r.random() < 0.2, odd_names=r.random() < 0.3,
                             sizes=lambda rr: gen.boundary_size(rr, bs, cap=(3000 if bs < 64 else cap)), bs=bs)
        if r.random() < 0.5 and bs >= 4096:
            ops.append(gen.f_op("src/big", bs * r.randrange(3, 9) + r.choice([0, 1, bs - 1]), pat=r.randrange(1, 1 << 30)))
        if bs >= 4096 and r.random() < 0.35:
            ln, runs = gen.sparse_layout(r, style=r.choice(["inter", "many", "lead", "trail"]), max_runs=6)
            ops.append(gen.f_op("src/sparse", ln, runs=runs, mtime=1_300_000_000_123_456_789))
        flags = {"r": True}
        if r.random() < 0.2:
            flags["fsync"] = True
        if r.random() < 0.15:
            flags["no_perms"] = True
        if r.random() < 0.15:
            flags["reflink"] = r.choice(["never", "auto"])
        dest = "dst"
        if r.random() < 0.4:
            ops.append(gen.d_op("dst"))
        inv = gen.mk_inv(["src"], dest, block_size=bs, **flags)
        # kernel configuration of the run: which optional facilities exist (same for all schedules of the case)
        kernel = {}
        c = r.random()
        if c < 0.25:
            kernel["cfr"] = r.choice(["ENOSYS", "EXDEV", "EPERM"])
        elif c < 0.35:
            kernel["max_io"] = r.choice([4096, 65536]) if bs >= 4096 else 7
        if r.random() < 0.5:
            kernel["fiemap"] = "emulate"
            if r.random() < 0.3:
                kernel["fiemap_split"] = 4096
        if r.random() < 0.4:
            # simulated time may jump to the next timer deadline while other threads are still runnable (a stalled thread): the
            # outcome must not depend on how long anything takes
            kernel["time_jump_p"] = r.choice([0.02, 0.1, 0.5])
        return {"setup": ops, "steps": [{"inv": inv}], "kernel": kernel, "max_events": 400000}

    def gen_plans(self, r, case, k):
        if case.get("race_shape"):
            k = max(k, 16)
        plans = []
        for j in range(k):
            drv = "parfile" if j % 2 == 0 else "parblock"
            w = r.choice([1, 2, 4, 16, 64]) if j >= 2 else r.choice([2, 4])
            if case.get("race_shape"):
                drv = "parfile" if j == 0 else "parblock"
                w = r.choice([2, 3, 4, 8])
                sp = gen.sched_plan(r, ustep=1.0)
                sp["ustep_budget"] = 300
                plans.append({"seed": r.randrange(1 << 48), "sched": sp, "inv_override": {"driver": drv, "workers": w}})
                continue
            plans.append({"seed": r.randrange(1 << 48), "sched": gen.sched_plan(r, ustep=self.ustep_rate), "inv_override": {"driver": drv, "workers": w}})
        return plans

    def evaluate(self, res, verdict, case, step_i, t0, plan):
        f = oracle.termination_findings(res)
        f += oracle.check_metadata_after_data(res)
        f += oracle.check_parent_before_child(res)
        if verdict is not None:
            from ..scheck import sparse_applicable
            f += oracle.check_tree(res, verdict, case["steps"][step_i]["inv"], case.get("umask", 0o022), t0,
                                   sparse_ok=sparse_applicable(case, case["steps"][step_i]["inv"], plan))
        return f

    def compare(self, case, finals):
        out = []
        fl = case["steps"][-1]["inv"]["flags"]
        classes = {}
        digs = {}
        for plan, res, verdict in finals:
            drv = plan["inv_override"]["driver"]
            ok = oracle.succeeded(res)
            classes.setdefault(ok, []).append(drv)
            if ok:
                d = tree_digest(res["post"], skip_mtime=bool(fl.get("no_timestamps")))
                digs.setdefault(d, []).append(drv)
        if len(classes) > 1:
            by = {k: sorted(set(v)) for k, v in classes.items()}
            cls = "exit-status-differs"
            if set(by[True]).isdisjoint(by[False]):
                cls += ":between-drivers"
            out.append(Finding("C06", cls, "", "exit 0 under %s but failure under %s for the same case" % (by[True], by[False])))
        if len(digs) > 1:
            ds = list(digs.values())
            cls = "tree-differs"
            if all(len(set(v)) == 1 for v in ds) and len(ds) == 2 and set(ds[0]) != set(ds[1]):
                cls += ":between-drivers"
            out.append(Finding("C06", cls, "", "successful runs of one case ended in %d different final states %s" % (len(digs), {k: sorted(set(v)) for k, v in digs.items()})))
        return out

    def is_nontrivial(self, res, verdict, case):
        return res["stats"]["threads"] >= 4 and res["stats"]["max_ready"] >= 2


CHECK = C06
