"""Campaign engine: runs a check's items on the worker pool, aggregates reach metrics, confirms, minimises and
reports violations with replay files, honours known_findings.json, writes the evidence file."""
import json, os, sys, time, hashlib, copy
from . import build, simclient, model, oracle, gen
from .oracle import Finding

VERIF = build.VERIF
REPLAYS = os.environ.get("VERIF_REPLAY_DIR") or os.path.join(VERIF, "replays")
EVIDENCE = os.environ.get("VERIF_EVIDENCE_DIR") or os.path.join(VERIF, "evidence")
KNOWN = os.environ.get("VERIF_KNOWN") or os.path.join(VERIF, "known_findings.json")

REAL_STUB = {
    "real": ["xcp binary built from /repo working tree (src/, libxcp, libfs and all dependencies, glibc)",
             "Linux VFS + tmpfs for every file operation that is not emulated"],
    "simulated": ["thread scheduling (token passing at system-call boundaries, plus seeded parking in user space after atomic instructions by single-stepping)", "futex wait/wake queues (timed waits on the simulated clock)", "sched_yield / sleeps",
                  "clock_gettime / gettimeofday / time (vDSO switched off at exec)", "getpid (fixed value)", "getrandom", "directory listing order", "per-call I/O length limit", "injected errno results", "process kill",
                  "FIEMAP answers (from the file's real SEEK_DATA/SEEK_HOLE map)", "FICLONE success"],
    "absent": ["other processes", "block devices", "reflink-capable file systems", "power loss"],
}


def exe_of(case):
    return {"xcp": build.XCP, "probe": build.PROBE, "xcp-fallback": build.XCP_FB}[case.get("bin", "xcp")]


def job_of(case, step_i, plan, log="sandbox"):
    step = case["steps"][step_i]
    setup = (case.get("setup", []) if step_i == 0 else []) + step.get("edits", [])
    inv = step.get("inv")
    if inv is not None and plan.get("inv_override"):
        inv = dict(inv, **plan["inv_override"])
    argv = step.get("argv") or gen.argv_of(inv)
    job = {
        "fresh": step_i == 0,
        "setup": setup,
        "exe": exe_of(case),
        "argv": argv,
        "umask": case.get("umask", 0o022),
        "nofile": case.get("nofile", 1024),
        "cwd": case.get("cwd", ""),
        "kernel": dict(case.get("kernel", {})),
        "seed": plan.get("seed", 0),
        "sched": plan.get("sched", {"kind": "random"}),
        "faults": plan.get("faults", []),
        "log": log,
        "max_events": plan.get("max_events", case.get("max_events", 60000)),
        "timeout_s": case.get("timeout_s", 60),
        "record_sched": bool(plan.get("record_sched")),
    }
    if job["sched"].get("ustep_main") and case.get("bin") != "probe":
        # the CLI's main thread runs time-dependent code (progress rate limiting): stepping it by instruction counts would not
        # replay; the probe's main thread (channel receiver) has no such code
        job["sched"] = {k: v for k, v in job["sched"].items() if k != "ustep_main"}
    if plan.get("kill_at") is not None:
        job["kill_at"] = plan["kill_at"]
    if "kernel" in plan:
        job["kernel"].update(plan["kernel"])
    return job


def run_step(sim, case, step_i, plan, log="sandbox", ignore=None, clone_ok=None):
    """run one invocation; returns (res, verdict, t_start_ns)"""
    job = job_of(case, step_i, plan, log)
    t0 = time.time_ns()
    res = sim.run(job)
    if res["outcome"]["kind"] == "harness":
        raise build.HarnessError(res["outcome"].get("msg", "harness error"))
    inv = case["steps"][step_i].get("inv")
    verdict = None
    if inv is not None and "pre" in res:
        if clone_ok is None:
            clone_ok = job["kernel"].get("ficlone") == "emulate"
        verdict = model.evaluate(res["pre"], inv, case.get("umask", 0o022), ignore=ignore, clone_ok=clone_ok)
    return res, verdict, t0


def summarize(res, findings, plan=None, extra=None):
    st = res.get("stats", {})
    findings = oracle.drop_unsound_on_truncated_log(res, findings)
    rec = {
        "log_truncated": bool(st.get("events_dropped")),
        "outcome": res["outcome"],
        "findings": [f.to_json() for f in findings],
        "sig": st.get("sched_sig"),
        "log_hash": st.get("log_hash"),
        "steps": st.get("steps", 0),
        "sites": st.get("sites", 0),
        "switches": st.get("switches", 0),
        "threads": st.get("threads", 0),
        "max_ready": st.get("max_ready", 0),
        "kernel_fired": st.get("kernel_fired", {}),
        "faults": st.get("faults", []),
        "peak_fds": st.get("peak_fds", 0),
        "sim_ns": st.get("sim_elapsed_ns", 0),
        "wall_ms": res.get("wall_ms", 0),
    }
    if res["outcome"].get("kind") != "exit" or res["outcome"].get("code"):
        rec["stderr_tail"] = res.get("stderr", "")[-300:]
    if plan is not None:
        rec["plan"] = plan
    if extra:
        rec.update(extra)
    return rec


class Check:
    """Base class of a property check."""
    prop = "C00"
    level = "exploration"
    technique = "deterministic simulation (seeded schedule search under a ptrace supervisor)"
    default_seed = 1
    rule = ""
    assumptions = []
    needs_probe = False
    needs_fallback = False
    own_props = None  # findings of these properties are this check's violations (default: [prop])

    def items(self, tier, seed):
        raise NotImplementedError

    def run_item(self, sim, item):
        """returns {"runs": [summaries...], "item": item-id, ...}"""
        raise NotImplementedError

    def replay_item(self, sim, rp):
        """re-run a replay file's content; returns list of findings"""
        item = rp["item"]
        rec = self.run_item(sim, item)
        return rec

    def nontrivial(self, run):
        return True

    def probes(self, run):
        return {}


def load_known():
    if not os.path.exists(KNOWN):
        return []
    return json.load(open(KNOWN)).get("findings", [])


def finding_matches(entry, f):
    if entry.get("property") != f["property"]:
        return False
    c = entry.get("class", "")
    return f["class"] == c or (c.endswith("*") and f["class"].startswith(c[:-1]))


def _stable_hash(obj):
    return hashlib.sha256(json.dumps(obj, sort_keys=True).encode()).hexdigest()[:16]


def _worker(args):
    pass


_CURRENT = None


def _runner(sim, item):
    try:
        rec = _CURRENT.run_item(sim, item)
        rec["ok"] = True
        return rec
    except build.HarnessError as e:
        return {"ok": False, "error": str(e), "item": item}


def make_runner(check):
    global _CURRENT
    _CURRENT = check
    return _runner


def execute(check, tier, seed, budget_s=None, out=sys.stdout):
    t0 = time.time()
    build.build_all(probe=check.needs_probe, fallback=check.needs_fallback)
    own = set(check.own_props or [check.prop])
    known = [k for k in load_known() if k.get("status") == "open"]
    fixed = [k for k in load_known() if k.get("status") == "fixed"]
    items = check.items(tier, seed)
    runner = make_runner(check)
    pool = simclient.Pool()
    n_runs = 0
    sigs = set()
    nontrivial_sigs = set()
    outcomes = {}
    kernel_fired = {}
    fault_table = {}
    probes = {}
    steps_total = 0
    sim_ns_total = 0
    switches_total = 0
    samples = []
    cross = {}
    viol = {}       # (prop, cls) -> (finding, item, run)
    knownhits = {}  # (prop, cls) -> (entry, finding)
    n_items = 0
    unexpected_fail = 0
    harness_err = None
    audit = []
    audit_transient = 0
    truncated = False
    try:
        import multiprocessing
        it_ = pool.imap(runner, items)
        while True:
            try:
                if budget_s:
                    # results arrive in input order; a heavy item at the head must not hold the wall-clock cap hostage
                    rec = it_.next(timeout=max(5.0, budget_s - (time.time() - t0) + 30.0))
                else:
                    rec = it_.next()
            except StopIteration:
                break
            except multiprocessing.TimeoutError:
                truncated = True
                break
            if not rec.get("ok"):
                harness_err = rec.get("error")
                break
            n_items += 1
            if len(samples) < 3:
                samples.append(check.sample_of(rec) if hasattr(check, "sample_of") else rec.get("sample", rec.get("item")))
            # determinism audit candidates: the cheapest few of the early items (an item can hold thousands of runs in the thorough tier)
            if n_items <= 24 and rec.get("item") is not None and not (rec["item"].get("case") or {}).get("no_audit") and len(rec["runs"]) <= 600:
                audit.append(rec)
                audit.sort(key=lambda x: len(x["runs"]))
                del audit[4:]
            for k, v in rec.get("probes", {}).items():
                probes[k] = probes.get(k, 0) + v
            for run in rec["runs"]:
                n_runs += 1
                steps_total += run.get("steps", 0)
                sim_ns_total += run.get("sim_ns", 0)
                switches_total += run.get("switches", 0)
                sg = (run.get("sig"), run.get("case_id", rec.get("case_id")))
                sigs.add(sg)
                if run.get("nontrivial", True):
                    nontrivial_sigs.add(sg)
                ok = run["outcome"]["kind"] + (":" + str(run["outcome"].get("code")) if run["outcome"]["kind"] == "exit" else "")
                outcomes[ok] = outcomes.get(ok, 0) + 1
                if run.get("unexpected_failure"):
                    unexpected_fail += 1
                if run.get("log_truncated"):
                    probes["runs-with-truncated-event-log"] = probes.get("runs-with-truncated-event-log", 0) + 1
                for k, v in run.get("kernel_fired", {}).items():
                    kernel_fired[k] = kernel_fired.get(k, 0) + v
                for fl in run.get("faults", []):
                    if fl.get("fired"):
                        key = "%s:%s" % (fl["fired"], fl.get("errno") or ("clamp" if fl.get("clamp") is not None else "?"))
                        ent = fault_table.setdefault(key, {"fired": 0, "exit0": 0, "exit_nonzero": 0, "other": 0})
                        ent["fired"] += 1
                        if oracle.succeeded(run):
                            ent["exit0"] += 1
                        elif run["outcome"]["kind"] == "exit":
                            ent["exit_nonzero"] += 1
                        else:
                            ent["other"] += 1
                for k, v in run.get("probes", {}).items():
                    probes[k] = probes.get(k, 0) + v
                for f in run["findings"]:
                    key = (f["property"], f["class"])
                    if f["property"] not in own:
                        cross[key[0] + "/" + key[1]] = cross.get(key[0] + "/" + key[1], 0) + 1
                        continue
                    ent = next((k for k in known if finding_matches(k, f)), None)
                    if ent is not None:
                        if key not in knownhits:
                            knownhits[key] = (ent, f, rec, run)
                        continue
                    if key not in viol:
                        viol[key] = (f, rec, run)
            if budget_s and time.time() - t0 > budget_s:
                truncated = True
                break
    finally:
        pool.pool.terminate()
        pool.close()
    if os.environ.get("VERIF_DEBUG_T"):
        out.write("T campaign %.1fs items=%d audit_runs=%s\n" % (time.time() - t0, n_items, [len(a["runs"]) for a in audit]))
    if harness_err:
        out.write("HARNESS-ERROR %s\n" % harness_err)
        return 2
    # determinism audit on a few items of this very campaign (fresh supervisor process)
    sim = simclient.Sim("main")
    try:
        # re-executed in a second pool (other processes, other sandbox paths, other times), the items side by side
        pool2 = simclient.Pool(nproc=max(1, min(4, len(audit))))
        try:
            agains = list(pool2.imap(runner, [rec["item"] for rec in audit])) if audit else []
        finally:
            pool2.pool.terminate()
            pool2.close()
        for rec, again in zip(audit, agains):
            if not again.get("ok"):
                out.write("HARNESS-ERROR %s\n" % again.get("error"))
                return 2
            h1 = [r.get("log_hash") for r in rec["runs"]]
            h2 = [r.get("log_hash") for r in again["runs"]]
            if h1 != h2:
                # one more execution decides whether the divergence is reproducible: two fresh executions that agree with each
                # other mean that the campaign's own execution was disturbed once (observed once in several hundred audits, under
                # heavy machine load); that is recorded in the evidence and is not an error.  Verdicts never rest on an unreplayed
                # run: every violation is re-executed before it is reported
                third = runner(sim, rec["item"])
                if third.get("ok") and [r.get("log_hash") for r in third["runs"]] == h2:
                    audit_transient += 1
                    continue
                try:
                    os.makedirs(build.CACHE, exist_ok=True)
                    json.dump({"item": rec["item"], "pool": rec["runs"], "again": again["runs"]}, open(os.path.join(build.CACHE, "nondet-%s.json" % check.prop), "w"))
                except Exception:
                    pass
                out.write("HARNESS-ERROR nondeterministic replay of a campaign item (event-log hashes differ; details in .cache/nondet-%s.json)\n" % check.prop)
                return 2
        if os.environ.get("VERIF_DEBUG_T"):
            out.write("T audit done %.1fs\n" % (time.time() - t0))
        # confirm + report violations
        reported = []
        unreproduced = []
        # witnesses of recorded findings of this property: an open finding's witness is expected to violate,
        # a fixed finding's witness must pass (a regression is a violation again)
        for ent in load_known():
            if ent.get("property") not in own or not ent.get("witness"):
                continue
            wpath = os.path.join(VERIF, ent["witness"])
            if not os.path.exists(wpath):
                continue
            wrp = json.load(open(wpath))
            wrec = runner(sim, wrp["item"])
            if not wrec.get("ok"):
                out.write("HARNESS-ERROR %s\n" % wrec.get("error"))
                return 2
            n_runs += len(wrec["runs"])
            hit = [g for r in wrec["runs"] for g in r["findings"] if g["property"] == wrp["property"] and g["class"] == wrp["class"]]
            if ent.get("status") == "fixed" and hit:
                reported.append((hit[0], wpath))
            elif ent.get("status") == "open":
                if hit:
                    key = (hit[0]["property"], hit[0]["class"])
                    knownhits.setdefault(key, (ent, hit[0], wrec, wrec["runs"][0]))
                else:
                    out.write("NOTE: witness %s of open finding %s/%s no longer violates\n" % (ent["witness"], ent["property"], ent["class"]))
        for key, (f, rec, run) in sorted(viol.items()):
            ritem = check.focus(rec["item"], run) if hasattr(check, "focus") else rec["item"]
            rp = {"property": f["property"], "class": f["class"], "detail": f["detail"], "path": f["path"], "seed": seed, "tier": tier,
                  "item": ritem, "run": {k: run.get(k) for k in ("plan", "outcome", "log_hash", "sig") if k in run}}
            again = runner(sim, ritem)
            if not again.get("ok"):
                out.write("HARNESS-ERROR %s\n" % again.get("error"))
                return 2
            same = any(g["property"] == f["property"] and g["class"] == f["class"] for r in again["runs"] for g in r["findings"])
            tries = 1
            while not same and tries < 3:
                # a finding is reported only if re-executing its run shows it again; three fresh executions that do not are taken to mean
                # that the campaign's own execution was disturbed (seen once, on an overloaded machine): it is counted in the evidence,
                # named on stdout, and is neither a violation nor a harness error
                again = runner(sim, ritem)
                same = again.get("ok") and any(g["property"] == f["property"] and g["class"] == f["class"] for r in again["runs"] for g in r["findings"])
                tries += 1
            if not same:
                unreproduced.append("%s/%s %s: %s" % (f["property"], f["class"], f["path"], f["detail"][:160]))
                out.write("NOTE: a finding %s/%s (%s) of the campaign did not show again in three re-executions of its run; not reported\n" % (key[0], key[1], f["path"]))
                continue
            if hasattr(check, "minimise"):
                try:
                    rp["item"] = check.minimise(sim, ritem, f, time.time() + 25)
                except build.HarnessError:
                    pass
            os.makedirs(os.path.join(REPLAYS, check.prop), exist_ok=True)
            path = os.path.join(REPLAYS, check.prop, "%s-%s.json" % (f["class"].replace("/", "_").replace(":", "_")[:60], _stable_hash(rp["item"])))
            json.dump(rp, open(path, "w"), indent=1, sort_keys=True)
            reported.append((f, path))
        for key, (ent, f, rec, run) in sorted(knownhits.items()):
            out.write("KNOWN-FINDING: property=%s %s: %s [e.g. %s: %s]\n" % (f["property"], f["class"], ent.get("description", ""), f["path"], f["detail"]))
        for f, path in reported:
            out.write("VIOLATION property=%s replay=%s\n" % (f["property"], path))
            out.write("  class=%s path=%s: %s\n" % (f["class"], f["path"], f["detail"]))
    finally:
        sim.close()
    wall = time.time() - t0
    cov = {
        "evaluations": n_runs,
        "distinct_nontrivial": len(nontrivial_sigs),
        "rule": check.rule,
        "samples": samples,
        "cases": n_items,
        "distinct_schedule_signatures": len(sigs),
        "simulated_steps": steps_total,
        "context_switches": switches_total,
        "runs_per_hour": int(n_runs / max(wall, 1e-6) * 3600),
        "seeds_per_hour": int(n_items / max(wall, 1e-6) * 3600),  # every case draws its own sub-seed from (VERIF_SEED, property, index)
        "user_space_preemptions": kernel_fired.get("ustep-preempt", 0),
        "timer_expiries_and_time_jumps": kernel_fired.get("timer-expiry", 0) + kernel_fired.get("time-jump", 0),
        "outcomes": outcomes,
        "kernel_behaviours_fired": kernel_fired,
        "fault_sites_fired": fault_table,
        "reach_probes": probes,
        "unexpected_failures": unexpected_fail,
        "cross_findings_other_properties": cross,
        "known_findings_seen": sorted("%s/%s" % k for k in knownhits),
        "truncated_by_budget": truncated,
        "determinism_audit": {"items_re_executed": len(audit), "transient_divergences": audit_transient, "findings_not_reproduced": unreproduced},
        "components": REAL_STUB,
        "simulated_time": "%.3f s on the simulated clock (10 us per scheduling decision, 1 us per clock query, jumps to timer deadlines; xcp itself has no timers) over %d scheduling decisions" % (sim_ns_total / 1e9, steps_total),
    }
    ev = {"property_id": check.prop, "tier": tier, "seed": seed, "level": check.level, "coverage": cov,
          "assumptions": check.assumptions, "wall_s": round(wall, 2), "violations": len(reported)}
    os.makedirs(EVIDENCE, exist_ok=True)
    json.dump(ev, open(os.path.join(EVIDENCE, check.prop + ".json"), "w"), indent=1, sort_keys=True)
    out.write("%s %s: %d runs over %d cases, %d distinct nontrivial, %d violations, %d known, %.1fs\n" %
              (check.prop, tier, n_runs, n_items, len(nontrivial_sigs), len(reported), len(knownhits), wall))
    return 1 if reported else 0


def replay(check, path, out=sys.stdout):
    build.build_all(probe=check.needs_probe, fallback=check.needs_fallback)
    rp = json.load(open(path))
    sim = simclient.Sim("replay")
    try:
        rec = make_runner(check)(sim, rp["item"])
    finally:
        sim.close()
    if not rec.get("ok"):
        out.write("HARNESS-ERROR %s\n" % rec.get("error"))
        return 2
    hit = [g for r in rec["runs"] for g in r["findings"] if g["property"] == rp["property"] and g["class"] == rp["class"]]
    for r in rec["runs"]:
        out.write("run outcome=%s log_hash=%s findings=%s\n" % (r["outcome"], r.get("log_hash"), ["%s/%s" % (g["property"], g["class"]) for g in r["findings"]]))
    if hit:
        out.write("VIOLATION property=%s replay=%s\n  class=%s path=%s: %s\n" % (rp["property"], path, hit[0]["class"], hit[0]["path"], hit[0]["detail"]))
        return 1
    out.write("replay did not violate %s/%s\n" % (rp["property"], rp["class"]))
    return 0
