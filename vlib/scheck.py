"""Schedule-search campaign (shape S / H / P of DESIGN §4): each generated case is executed under several
seeded schedules; every run is checked against the reference model, runs of one case against each other."""
import json, hashlib
from . import campaign, gen, oracle, model
from .campaign import Check, run_step, summarize
from .oracle import Finding


def tree_digest(entries, skip_dir_mtime=True, only_prefix=None, skip_mtime=False):
    """canonical digest of (part of) a snapshot for cross-run comparison"""
    h = hashlib.sha256()
    for e in entries:
        if only_prefix is not None and not (e["p"] == only_prefix or e["p"].startswith(only_prefix + "/")):
            continue
        rec = [e["p"], e["k"], e["mode"], e["uid"], e["gid"], e.get("size"), e.get("h"), e.get("to"), e.get("major"), e.get("minor"),
               sorted((e.get("xattrs") or {}).items())]
        if not skip_mtime and e["k"] == "f":
            # only regular files carry a transferred timestamp; links, nodes and directories are stamped "now"
            rec.append(e["mtime"])
        h.update(json.dumps(rec).encode())
    return h.hexdigest()[:16]


def sparse_applicable(case, inv, plan=None):
    """C11's precondition "a file system that supports hole detection": SEEK_DATA/SEEK_HOLE is native on tmpfs (parfile),
    extent mapping exists only when the simulated kernel emulates FIEMAP (parblock)"""
    drv = (plan or {}).get("inv_override", {}).get("driver") or inv.get("driver", "parfile")
    k = dict(case.get("kernel", {}))
    k.update((plan or {}).get("kernel", {}))
    if k.get("ficlone") == "emulate":
        return False
    if drv == "parblock":
        return k.get("fiemap") == "emulate"
    return True


class SCheck(Check):
    N = {"quick": 100, "thorough": 2000}
    K = {"quick": 4, "thorough": 16}
    log = "sandbox"
    compare_runs = False
    FAULT_N = None  # {"quick": n, "thorough": m}: size of the optional single-fault pass (see run_item)

    def fault_site(self, ev, case):
        return False

    def fault_errnos(self, ev):
        from .fcheck import errnos_for
        return errnos_for(ev)
    ustep_rate = 0.12  # share of schedule plans that also preempt in user space (single-stepping); see gen.sched_plan

    def gen_case(self, r, idx, tier):
        raise NotImplementedError

    def gen_plans(self, r, case, k):
        plans = []
        for j in range(k):
            plans.append({"seed": r.randrange(1 << 48), "sched": gen.sched_plan(r, est=case.get("est_steps", 300), ustep=self.ustep_rate)})
        return plans

    def evaluate(self, res, verdict, case, step_i, t0, plan):
        """default: termination + tree oracle"""
        inv = case["steps"][step_i]["inv"]
        f = oracle.termination_findings(res)
        if verdict is not None:
            f += oracle.check_tree(res, verdict, inv, case.get("umask", 0o022), t0, sparse_ok=sparse_applicable(case, inv, plan))
        return f

    def items(self, tier, seed):
        n = self.N[tier]
        k = self.K[tier]
        for i in range(n):
            r = gen.rng_for(seed, self.prop, i)
            case = self.gen_case(r, i, tier)
            if case is None:
                continue
            gen.canon_case(case)
            plans = self.gen_plans(r, case, k)
            yield {"case": case, "plans": plans, "case_id": i, "tier": tier}

    def is_nontrivial(self, res, verdict, case):
        return res["stats"]["threads"] >= 3 and res["stats"]["sites"] > 10

    def run_probes(self, res, verdict, case):
        return {}

    def ignore_of(self, case, step_i):
        return case["steps"][step_i].get("ignore")

    def run_item(self, sim, item):
        case = item["case"]
        runs = []
        finals = []
        for plan in item["plans"]:
            for si in range(len(case["steps"])):
                ig = self.ignore_of(case, si)
                if ig is not None:
                    ig = {k: set(v) for k, v in ig.items()}
                res, verdict, t0 = run_step(sim, case, si, plan, self.log, ignore=ig)
                f = self.evaluate(res, verdict, case, si, t0, plan)
                extra = {"nontrivial": self.is_nontrivial(res, verdict, case), "probes": self.run_probes(res, verdict, case), "step": si,
                         "verdict": verdict.kind if verdict else None}
                if verdict is not None and verdict.kind == "expect" and not oracle.succeeded(res) and not plan.get("faults") and plan.get("kill_at") is None:
                    extra["unexpected_failure"] = True
                    extra["stderr"] = res.get("stderr", "")[-300:]
                runs.append(summarize(res, f, plan, extra))
                if si == len(case["steps"]) - 1:
                    finals.append((plan, res, verdict))
        # optional single-fault pass of a schedule-search check: one errno at selected calls of the first plan's run (deterministic up to
        # the fault); the check's own oracle judges the faulted run ("exit 0 implies ..." stays true under any fault)
        nf = self.FAULT_N.get(item.get("tier", "quick"), 0) if isinstance(self.FAULT_N, dict) else 0
        if nf and len(case["steps"]) == 1 and item["plans"]:
            import random
            from .fcheck import errnos_for, robust_plan
            plan = item["plans"][0]
            res0, v0, t00 = run_step(sim, case, 0, plan, "sandbox", ignore=({k: set(v) for k, v in self.ignore_of(case, 0).items()} if self.ignore_of(case, 0) else None))
            cands = [(ev, e) for ev in res0.get("events", []) if ev.get("site") is not None and self.fault_site(ev, case) for e in self.fault_errnos(ev)]
            rr = random.Random(plan["seed"] ^ 0xfa17)
            rr.shuffle(cands)
            for ev, e in cands[:nf]:
                p2 = dict(plan, faults=[{"site": ev["site"], "errno": e}], max_events=20 * res0["stats"]["steps"] + 5000)
                ig = self.ignore_of(case, 0)
                res2, v2, t2 = run_step(sim, case, 0, p2, self.log, ignore=({k: set(v) for k, v in ig.items()} if ig else None))
                f2 = self.evaluate(res2, v2, case, 0, t2, p2)
                for x in f2:
                    if x.prop == self.prop:
                        x.cls += ":after-%s-%s" % (ev["c"], e)
                fired = any(x.get("fired") for x in res2["stats"].get("faults", []))
                runs.append(summarize(res2, f2, robust_plan(p2, res2), {"nontrivial": bool(fired), "step": 0, "probes": {"fault:%s:%s" % (ev["c"], e): 1}}))
        if self.compare_runs and len(finals) > 1:
            extra_f = self.compare(case, finals)
            if extra_f:
                runs[-1]["findings"] += [x.to_json() for x in extra_f]
        return {"runs": runs, "item": item, "case_id": item.get("case_id"), "sample": {"argv": [gen.argv_of(s["inv"]) if "inv" in s else s.get("argv") for s in case["steps"]],
                                                                                   "setup": case.get("setup", [])[:12], "kernel": case.get("kernel", {}),
                                                                                   "schedules": [p["sched"] for p in item["plans"]][:4]}}

    def compare(self, case, finals):
        return []

    # ------------------------------------------------------------------ minimisation
    def minimise(self, sim, item, f, deadline):
        import time, copy
        best = copy.deepcopy(item)

        def reproduces(cand):
            try:
                rec = self.run_item(sim, cand)
            except Exception:
                return False
            return any(g["property"] == f["property"] and g["class"] == f["class"] for r in rec["runs"] for g in r["findings"])

        cross = f["class"].startswith(("tree-differs", "exit-status-differs"))
        # 1. a single plan
        for p in ([] if cross else list(best["plans"])):
            if time.time() > deadline:
                return best
            cand = dict(best, plans=[p])
            if reproduces(cand):
                best = cand
                break
        # 1b. a violation that only exists between runs (cross-run comparison): the smallest pair of plans that still shows it
        if len(best["plans"]) > 2 and self.compare_runs:
            done = False
            n_ = len(best["plans"])
            for i in range(n_):
                for j in range(i + 1, n_):
                    if time.time() > deadline or done:
                        break
                    cand = dict(best, plans=[best["plans"][i], best["plans"][j]])
                    if reproduces(cand):
                        best = cand
                        done = True
                if done:
                    break
        # 2. simplest scheduler
        if time.time() < deadline and len(best["plans"]) == 1 and best["plans"][0]["sched"].get("kind") != "rtb":
            cand = copy.deepcopy(best)
            cand["plans"] = [dict(cand["plans"][0], sched={"kind": "rtb"})]
            if reproduces(cand):
                best = cand
        # 2a. without user-space stepping
        if time.time() < deadline and any(k.startswith("ustep") for k in best["plans"][0]["sched"]):
            cand = copy.deepcopy(best)
            cand["plans"] = [dict(cand["plans"][0], sched={k: v for k, v in cand["plans"][0]["sched"].items() if not k.startswith("ustep")})]
            if reproduces(cand):
                best = cand
        # 2b. an explicit schedule with as few context switches as possible (single-invocation cases)
        if time.time() < deadline and best["plans"][0]["sched"].get("kind") not in ("rtb", "explicit") and len(best["case"]["steps"]) == 1:
            try:
                res, _, _ = run_step(sim, best["case"], 0, dict(best["plans"][0], record_sched=True), "none")
                L = res.get("sched") or []
            except Exception:
                L = []
            if L and len(L) <= 20000:
                cand = copy.deepcopy(best)
                keep = {k: v for k, v in cand["plans"][0]["sched"].items() if k.startswith("ustep")}
                cand["plans"] = [dict(cand["plans"][0], sched=dict(keep, kind="explicit", list=L))]
                if reproduces(cand):
                    best = cand
                    tries = 0
                    i = 1
                    while i < len(L) and tries < 80 and time.time() < deadline:
                        if L[i] != L[i - 1]:
                            L2 = list(L)
                            L2[i] = L[i - 1]
                            cand = copy.deepcopy(best)
                            cand["plans"][0]["sched"]["list"] = L2
                            tries += 1
                            if reproduces(cand):
                                best, L = cand, L2
                        i += 1
        # 3. drop setup entries (last first so children go before parents)
        ops = best["case"].get("setup", [])
        i = len(ops) - 1
        while i >= 0 and time.time() < deadline:
            cand = copy.deepcopy(best)
            del cand["case"]["setup"][i]
            if reproduces(cand):
                best = cand
            i -= 1
        # 4. fewer workers
        for st in range(len(best["case"]["steps"])):
            inv = best["case"]["steps"][st].get("inv")
            if inv and inv.get("workers", 1) > 1 and time.time() < deadline:
                cand = copy.deepcopy(best)
                cand["case"]["steps"][st]["inv"]["workers"] = 1
                if reproduces(cand):
                    best = cand
        # 5. drop faults one by one
        pl = best["plans"][0]
        if pl.get("faults") and len(pl["faults"]) > 1:
            for j in range(len(pl["faults"]) - 1, -1, -1):
                if time.time() > deadline:
                    break
                cand = copy.deepcopy(best)
                del cand["plans"][0]["faults"][j]
                if reproduces(cand):
                    best = cand
        return best
