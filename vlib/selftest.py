"""./check selftest — environment assumptions and the determinism audit (DESIGN 2.6).
Every seed is executed twice, in different worker processes (different sandbox paths, pids and wall-clock
times); the normalised event logs must be identical, with each fault kind enabled in turn."""
import os, sys, json, time
from . import build, simclient, gen, campaign


def _case(r):
    bs = 65536
    ops = gen.small_tree(r, "src", nfiles=4, links=True, specials=True, sizes=lambda rr: gen.boundary_size(rr, bs, cap=150_000), bs=bs)
    ln, runs = gen.sparse_layout(r, max_runs=3)
    ops.append(gen.f_op("src/sparse", ln, runs=runs))
    ops.append(gen.f_op("src/big", bs * 3 + 1, pat=5))
    return ops


def _run(sim, item):
    job = item["job"]
    res = sim.run(job)
    return {"tag": item["tag"], "hash": res.get("stats", {}).get("log_hash"), "outcome": res["outcome"], "sig": res.get("stats", {}).get("sched_sig"),
            "fired": res.get("stats", {}).get("kernel_fired"), "steps": res.get("stats", {}).get("steps", 0)}


def env_checks(sim):
    errs = []
    res = sim.run({"fresh": True, "setup": [gen.f_op("one", 1, pat=1), gen.f_op("x", 10, pat=2, xattrs={"user.t": "00ff"}), gen.n_op("c", "chr", 5, 7, 0o600),
                                             gen.f_op("sp", 1 << 20, runs=[[4096, 4096, 3]]), gen.f_op("m", 5, pat=1, mode=0o7777, uid=1234, gid=4321, mtime=123456789)]})
    pre = {e["p"]: e for e in res.get("pre", [])}
    if res["outcome"]["kind"] != "setup":
        return ["sandbox build failed: %s" % res["outcome"]]
    if pre["one"]["blocks"] != 8:
        errs.append("tmpfs does not account 4 KiB pages exactly (1-byte file has %s blocks); shmem huge pages?" % pre["one"]["blocks"])
    if pre["x"].get("xattrs", {}).get("user.t") != "00ff":
        errs.append("user xattrs unsupported on the scratch file system")
    if (pre["c"].get("major"), pre["c"].get("minor")) != (5, 7):
        errs.append("mknod of character devices not possible")
    if pre["sp"].get("segs") != [[4096, 8192]]:
        errs.append("SEEK_DATA/SEEK_HOLE not at page granularity: %s" % pre["sp"].get("segs"))
    if (pre["m"]["mode"], pre["m"]["uid"], pre["m"]["gid"], pre["m"]["mtime"]) != (0o7777, 1234, 4321, 123456789):
        errs.append("mode/owner/ns timestamps not preserved by the scratch file system: %s" % pre["m"])
    return errs


def main(tier):
    build.build_all(probe=True)
    n = 32 if tier == "quick" else 512
    sim = simclient.Sim("selftest")
    try:
        errs = env_checks(sim)
    finally:
        sim.close()
    if errs:
        for e in errs:
            print("HARNESS-ERROR environment: " + e)
        return 2
    items = []
    variants = [("plain", {}, {}), ("errno", {"faults": [{"site": 40, "errno": "EIO"}]}, {}), ("clamp", {}, {"max_io": 4096}), ("kill", {"kill_at": 55}, {}),
                ("fiemap", {}, {"fiemap": "emulate", "fiemap_split": 4096}), ("ficlone", {}, {"ficlone": "emulate"}), ("cfr-absent", {}, {"cfr": "ENOSYS"}),
                ("wake-any", {}, {"wake_any": True}),
                ("ustep-atomic", {"_sched": {"ustep_p": 0.3, "ustep_max": 100, "ustep_locks": 3, "ustep_after": 20, "ustep_hold": 4}}, {}),
                ("ustep-blind", {"_sched": {"ustep_p": 0.1, "ustep_max": 600, "ustep_main": True}}, {})]
    for s in range(n):
        r = gen.rng_for(s, "selftest", 0)
        ops = _case(r)
        for drv in ("parfile", "parblock"):
            for w in (2, 7):
                vname, pl, kern = variants[s % len(variants)]
                inv = gen.mk_inv(["src"], "dst", driver=drv, workers=w, block_size=65536, r=True, fsync=True)
                case = {"setup": ops, "steps": [{"inv": inv}], "kernel": kern}
                pl = dict(pl)
                sp = gen.sched_plan(r, ustep=0)
                sp.update(pl.pop("_sched", {}))
                plan = dict({"seed": s * 7919 + 1, "sched": sp}, **pl)
                job = campaign.job_of(case, 0, plan, "none")
                job["snap"] = {"pre": False, "post": False}
                items.append({"tag": "%d/%s/%d/%s" % (s, drv, w, vname), "job": job})
    t0 = time.time()
    pool = simclient.Pool()
    try:
        a = list(pool.imap(_run, items))
        # second pass in reverse order so that every job lands on another worker at another time
        b = list(pool.imap(_run, list(reversed(items))))
    finally:
        pool.close()
    b = list(reversed(b))
    bad = [(x["tag"], x["hash"], y["hash"]) for x, y in zip(a, b) if x["hash"] != y["hash"] or x["hash"] is None]
    harness = [x for x in a + b if x["outcome"]["kind"] == "harness"]
    print("selftest: %d jobs x 2, %d distinct schedule signatures, %d mismatches, %d harness errors, %.1fs" %
          (len(items), len(set(x["sig"] for x in a)), len(bad), len(harness), time.time() - t0))
    for t in bad[:10]:
        print("HARNESS-ERROR nondeterministic: %s %s != %s" % t)
    for h in harness[:5]:
        print("HARNESS-ERROR %s" % h["outcome"])
    return 2 if (bad or harness) else 0
