"""Build steps: xcp (from /repo's working tree), xcpsim, probe, fallback binary.  A build failure is a
harness error (exit 2), never a violation."""
import os, subprocess, sys, hashlib, json, shutil

VERIF = os.path.dirname(os.path.dirname(os.path.abspath(__file__)))
REPO = os.environ.get("VERIF_REPO", "/repo")
CACHE = os.path.join(VERIF, ".cache")
XCP_TARGET = os.path.join(CACHE, "xcp-target")
SIM_TARGET = os.path.join(CACHE, "sim-target")
PROBE_TARGET = os.path.join(CACHE, "probe-target")
FB_DIR = os.path.join(CACHE, "fallback")
XCP = os.path.join(XCP_TARGET, "release", "xcp")
XCPSIM = os.path.join(SIM_TARGET, "release", "xcpsim")
PROBE = os.path.join(PROBE_TARGET, "release", "xcpprobe")
XCP_FB = os.path.join(FB_DIR, "target", "release", "xcp")


class HarnessError(Exception):
    pass


def _env():
    e = dict(os.environ)
    e["CARGO_NET_OFFLINE"] = "true"
    e.pop("RUSTFLAGS", None)
    return e


def _run(cmd, cwd=None, what=""):
    p = subprocess.run(cmd, cwd=cwd, env=_env(), stdout=subprocess.PIPE, stderr=subprocess.STDOUT, text=True)
    if p.returncode != 0:
        sys.stderr.write(p.stdout[-6000:])
        raise HarnessError("build failed: %s" % (what or " ".join(cmd)))
    return p.stdout


def build_sim():
    _run(["cargo", "build", "--release", "--offline", "--manifest-path", os.path.join(VERIF, "sim", "Cargo.toml"),
          "--target-dir", SIM_TARGET], what="xcpsim")
    return XCPSIM


def build_xcp():
    _run(["cargo", "build", "--release", "--offline", "--manifest-path", os.path.join(REPO, "Cargo.toml"),
          "--target-dir", XCP_TARGET, "--bin", "xcp"], what="xcp from " + REPO)
    return XCP


def build_probe():
    _run(["cargo", "build", "--release", "--offline", "--manifest-path", os.path.join(VERIF, "probe", "Cargo.toml"),
          "--target-dir", PROBE_TARGET], what="probe")
    return PROBE


def build_all(probe=False, fallback=False):
    os.makedirs(CACHE, exist_ok=True)
    build_sim()
    build_xcp()
    if probe:
        build_probe()
    if fallback:
        build_fallback()
