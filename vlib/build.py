"""Build steps: xcp (from /repo's working tree), xcpsim, probe, fallback binary.  A build failure is a
harness error (exit 2), never a violation."""
import os, subprocess, sys, hashlib, json, shutil

VERIF = os.path.dirname(os.path.dirname(os.path.abspath(__file__)))
REPO = os.environ.get("VERIF_REPO", "/repo")
CACHE = os.environ.get("VERIF_CACHE") or os.path.join(VERIF, ".cache")
XCP_TARGET = os.path.join(CACHE, "xcp-target")
SIM_TARGET = os.path.join(CACHE, "sim-target")
PROBE_TARGET = os.path.join(CACHE, "probe-target")
FB_DIR = os.path.join(CACHE, "fallback")
XCP = os.path.join(XCP_TARGET, "release", "xcp")
XCPSIM = os.path.join(SIM_TARGET, "release", "xcpsim")
PROBE = os.path.join(PROBE_TARGET, "release", "xcpprobe")
XCP_FB = os.path.join(FB_DIR, "target", "release", "xcp")


class HarnessError(Exception):
    pass


def _env():
    e = dict(os.environ)
    e["CARGO_NET_OFFLINE"] = "true"
    e.pop("RUSTFLAGS", None)
    return e


def _run(cmd, cwd=None, what=""):
    p = subprocess.run(cmd, cwd=cwd, env=_env(), stdout=subprocess.PIPE, stderr=subprocess.STDOUT, text=True)
    if p.returncode != 0:
        sys.stderr.write(p.stdout[-6000:])
        raise HarnessError("build failed: %s" % (what or " ".join(cmd)))
    return p.stdout


def build_sim():
    _run(["cargo", "build", "--release", "--offline", "--manifest-path", os.path.join(VERIF, "sim", "Cargo.toml"),
          "--target-dir", SIM_TARGET], what="xcpsim")
    return XCPSIM


def build_xcp():
    _run(["cargo", "build", "--release", "--offline", "--manifest-path", os.path.join(REPO, "Cargo.toml"),
          "--target-dir", XCP_TARGET, "--bin", "xcp"], what="xcp from " + REPO)
    return XCP


def build_probe():
    """the probe links libxcp and libfs of the repository under test by path; its manifest is generated from
    probe/Cargo.toml with that path substituted (VERIF_REPO) so that background runs on a snapshot and seeded-change
    runs in a scratch worktree never touch /repo"""
    src = os.path.join(VERIF, "probe")
    man = open(os.path.join(src, "Cargo.toml")).read()
    if REPO == "/repo":
        mpath = os.path.join(src, "Cargo.toml")
    else:
        d = os.path.join(CACHE, "probe-manifest")
        os.makedirs(d, exist_ok=True)
        man = man.replace('"/repo/', '"%s/' % REPO)
        man += '\n[[bin]]\nname = "xcpprobe"\npath = "%s/src/main.rs"\n' % src
        mpath = os.path.join(d, "Cargo.toml")
        if not os.path.exists(mpath) or open(mpath).read() != man:
            open(mpath, "w").write(man)
        shutil.copy(os.path.join(src, "Cargo.lock"), os.path.join(d, "Cargo.lock"))
    _run(["cargo", "build", "--release", "--offline", "--manifest-path", mpath,
          "--target-dir", PROBE_TARGET], what="probe")
    return PROBE


def build_all(probe=False, fallback=False):
    os.makedirs(CACHE, exist_ok=True)
    build_sim()
    build_xcp()
    if probe:
        build_probe()
    if fallback:
        build_fallback()


def build_fallback():
    """xcp built from the same sources against libfs' non-Linux backend (libfs/src/fallback.rs).  The repository's own
    feature wiring cannot select it (libxcp's libfs dependency always enables use_linux), so two shadow manifests are
    generated from /repo's manifests at check time; sources are referenced by absolute path, /repo is untouched."""
    import re
    os.makedirs(os.path.join(FB_DIR, "libxcp"), exist_ok=True)
    top = open(os.path.join(REPO, "Cargo.toml")).read()
    lib = open(os.path.join(REPO, "libxcp", "Cargo.toml")).read()
    # --- libxcp shadow
    lib = re.sub(r'(?m)^libfs\s*=.*$', 'libfs = { path = "%s/libfs", default-features = false }' % REPO, lib)
    lib = re.sub(r'(?ms)^\[features\].*?(?=^\[)', '[features]\ndefault = ["parblock"]\nparblock = []\nuse_linux = []\n\n', lib)
    lib = re.sub(r'(?m)^readme\s*=.*\n', '', lib)
    lib += '\n[lib]\npath = "%s/libxcp/src/lib.rs"\n' % REPO
    open(os.path.join(FB_DIR, "libxcp", "Cargo.toml"), "w").write(lib)
    # --- xcp shadow
    top = re.sub(r'(?ms)^\[workspace\].*?(?=^\[)', '', top)
    top = re.sub(r'(?m)^libfs\s*=.*$', 'libfs = { path = "%s/libfs", default-features = false }' % REPO, top)
    top = re.sub(r'(?m)^libxcp\s*=.*$', 'libxcp = { path = "%s/libxcp", default-features = false, features = ["parblock"] }' % FB_DIR, top)
    top = re.sub(r'(?ms)^\[features\].*?(?=^\[)', '[features]\ndefault = ["parblock"]\nparblock = []\nuse_linux = []\n\n', top)
    top = re.sub(r'(?m)^readme\s*=.*\n', '', top)
    top = re.sub(r'(?ms)^\[dev-dependencies\].*?(?=^\[)', '', top)
    top += '\n[[bin]]\nname = "xcp"\npath = "%s/src/main.rs"\n\n[workspace]\n' % REPO
    open(os.path.join(FB_DIR, "Cargo.toml"), "w").write(top)
    shutil.copy(os.path.join(REPO, "Cargo.lock"), os.path.join(FB_DIR, "Cargo.lock"))
    _run(["cargo", "build", "--release", "--offline", "--manifest-path", os.path.join(FB_DIR, "Cargo.toml"),
          "--target-dir", os.path.join(FB_DIR, "target"), "--bin", "xcp"], what="xcp fallback backend")
    return XCP_FB
