"""Client side of xcpsim: persistent `xcpsim serve` workers, one per pool process."""
import json, os, subprocess, sys, multiprocessing as mp, shutil, atexit, time
from . import build

SCRATCH = os.environ.get("VERIF_SCRATCH", "/dev/shm")
os.makedirs(SCRATCH, exist_ok=True)
NPROC = int(os.environ.get("VERIF_NPROC", str(min(16, os.cpu_count() or 4))))


def unmount_below(base):
    """lazily unmount any mount point under base (sandboxes may hold a second tmpfs)"""
    try:
        pts = []
        for line in open("/proc/self/mounts", "rb").read().split(b"\n"):
            f = line.split(b" ")
            if len(f) > 1:
                mp = f[1].decode("unicode_escape", "replace") if b"\\" in f[1] else f[1].decode("utf-8", "surrogateescape")
                if mp.startswith(base + "/"):
                    pts.append(mp)
        for mp in sorted(pts, key=len, reverse=True):
            subprocess.run(["umount", "-l", mp], stdout=subprocess.DEVNULL, stderr=subprocess.DEVNULL)
    except Exception:
        pass


class Sim:
    def __init__(self, tag):
        # the same *length* (and separator positions) in every process: with single-stepping, instruction counts inside path handling
        # (realpath, copies, hashing) depend on the length of the absolute sandbox path; a 5- versus 6-digit pid made two executions of
        # one stepped plan park at different instructions (seen twice, both under -L where realpath walks the absolute path)
        self.base = os.path.join(SCRATCH, "xcpsim.%07d.%s" % (os.getpid(), (tag + "____")[:4]))
        unmount_below(self.base)
        shutil.rmtree(self.base, ignore_errors=True)
        os.makedirs(self.base, exist_ok=True)
        self.root = os.path.join(self.base, "sb")
        self.proc = None
        self.n = 0

    def _start(self):
        self.proc = subprocess.Popen([build.XCPSIM, "serve"], stdin=subprocess.PIPE, stdout=subprocess.PIPE,
                                     text=True, bufsize=1)

    def run(self, job):
        if self.proc is None or self.proc.poll() is not None:
            self._start()
        j = dict(job)
        j.setdefault("root", self.root)
        j.setdefault("out_dir", os.path.join(self.base, "out"))
        self.proc.stdin.write(json.dumps(j) + "\n")
        self.proc.stdin.flush()
        # a supervisor that does not answer within a generous wall-clock bound is a harness error, never a hang of the check
        import select
        limit = float(os.environ.get("VERIF_JOB_WALL_S", "900"))
        rl, _, _ = select.select([self.proc.stdout], [], [], limit)
        if not rl:
            try:
                self.proc.kill()
            except Exception:
                pass
            subprocess.run(["pkill", "-KILL", "-P", str(self.proc.pid)], stdout=subprocess.DEVNULL, stderr=subprocess.DEVNULL)
            self.proc = None
            return {"outcome": {"kind": "harness", "msg": "xcpsim gave no result within %.0f s of wall-clock time (job killed)" % limit}}
        line = self.proc.stdout.readline()
        if not line:
            rc = self.proc.poll()
            self.proc = None
            return {"outcome": {"kind": "harness", "msg": "xcpsim died (rc=%s)" % rc}}
        self.n += 1
        return json.loads(line)

    def close(self):
        if self.proc is not None:
            try:
                self.proc.stdin.close()
                self.proc.wait(timeout=5)
            except Exception:
                self.proc.kill()
            self.proc = None
        unmount_below(self.base)
        shutil.rmtree(self.base, ignore_errors=True)


_worker_sim = None


def worker_sim():
    global _worker_sim
    if _worker_sim is None:
        _worker_sim = Sim("w")
        atexit.register(_worker_sim.close)
    return _worker_sim


def _pool_init():
    # each pool process lazily gets its own Sim
    pass


def _call(args):
    fn, item = args
    try:
        return fn(worker_sim(), item)
    finally:
        pass


class Pool:
    """Ordered parallel map of fn(sim, item) over items; results are yielded in input order so that
    everything downstream is independent of worker count and timing."""

    def __init__(self, nproc=None):
        self.nproc = nproc or NPROC
        ctx = mp.get_context("fork")
        self.pool = ctx.Pool(self.nproc, initializer=_pool_init)

    def imap(self, fn, items, chunksize=1):
        return self.pool.imap(_call, ((fn, it) for it in items), chunksize)

    def close(self):
        self.pool.close()
        self.pool.join()
        # pool workers remove their own scratch via atexit? multiprocessing skips atexit; sweep here
        for d in (os.listdir(SCRATCH) if os.path.isdir(SCRATCH) else []):
            if d.startswith("xcpsim."):
                pid = d.split(".")[1]
                if not (pid.isdigit() and os.path.exists("/proc/%d" % int(pid))):
                    unmount_below(os.path.join(SCRATCH, d))
                    shutil.rmtree(os.path.join(SCRATCH, d), ignore_errors=True)
