"""Fault campaigns (shapes F1 / F2 / K of DESIGN §4).  For each case: one fault-free baseline run under schedule
sigma records the visible calls on sandbox objects (the fault sites); then the same case is re-run under the same
sigma with one fault (errno, short transfer, or kill) armed at an enumerated site.  Execution is deterministic up
to the fault, so the fault lands on exactly that call."""
import copy
from . import campaign, gen, oracle, model
from .campaign import Check, run_step, summarize
from .scheck import SCheck
from .oracle import Finding

O_CREAT, O_WRONLY, O_RDWR, O_TRUNC = 0o100, 0o1, 0o2, 0o1000


def errnos_for(ev):
    """errno values a POSIX/Linux kernel may legally return for this call (man pages), beyond the common EIO/ENOSPC:
    quota, read-only, permission, limits.  Values that carry protocol meaning for the caller (ENXIO from
    SEEK_DATA, ENOSYS/EXDEV from copy_file_range, EOPNOTSUPP from ioctl) are left to the kernel profiles."""
    c = ev["c"]
    if c in ("openat", "open"):
        if ev.get("flags", 0) & (O_CREAT | O_WRONLY | O_RDWR):
            return ["EACCES", "EMFILE", "ENOSPC", "EROFS", "EIO", "EDQUOT", "ENFILE", "EPERM", "ETXTBSY", "ENOMEM"]
        return ["EACCES", "EMFILE", "EIO", "ENFILE", "ELOOP", "ENOMEM"]
    if c in ("statx", "newfstatat", "stat", "lstat", "fstat"):
        return ["EACCES", "EIO", "ENOMEM", "ELOOP"]
    if c in ("mkdir", "mkdirat"):
        return ["ENOSPC", "EACCES", "EROFS", "EEXIST", "EDQUOT", "EMLINK", "EPERM", "EIO"]
    if c in ("symlink", "symlinkat"):
        return ["EEXIST", "EACCES", "ENOSPC", "EDQUOT", "EROFS", "EPERM", "EIO"]
    if c in ("mknod", "mknodat"):
        return ["EPERM", "EEXIST", "ENOSPC", "EACCES", "EROFS", "EDQUOT"]
    if c in ("rename", "renameat", "renameat2"):
        return ["EACCES", "ENOSPC", "EIO", "EPERM", "EBUSY", "EROFS", "EDQUOT"]
    if c in ("unlink", "unlinkat"):
        return ["EACCES", "EIO", "EPERM", "EBUSY", "EROFS"]
    if c == "ftruncate":
        return ["ENOSPC", "EIO", "EPERM", "EINVAL", "EFBIG", "EDQUOT"]
    if c in ("copy_file_range",):
        return ["ENOSPC", "EIO", "EFBIG", "EDQUOT", "EINVAL", "ENOMEM", "EINTR", "EAGAIN"]
    if c in ("write", "pwrite64"):
        return ["ENOSPC", "EIO", "EFBIG", "EDQUOT", "EPERM", "EINTR"]
    if c == "pread64":
        return ["EIO", "ENOMEM", "EINTR"]
    if c == "read":
        return ["EIO", "EINTR", "ENOMEM"]
    if c == "getdents64":
        return ["EIO", "ENOMEM"]
    if c in ("readlink", "readlinkat"):
        return ["EACCES", "EIO", "ENOMEM"]
    if c == "lseek":
        # EINVAL: "whence is not valid" is how a file system without SEEK_DATA/SEEK_HOLE support answers
        return ["EIO", "EINVAL", "EOVERFLOW"]
    if c in ("fchmod", "utimensat"):
        return ["EPERM", "EIO", "EROFS", "EACCES"]
    if c == "fchown":
        return ["EPERM", "EROFS", "EIO"]
    if c in ("flistxattr", "fgetxattr", "fsetxattr"):
        return ["ENOTSUP", "EPERM", "ENOSPC", "EDQUOT"]
    if c in ("fsync", "fdatasync"):
        return ["EIO", "ENOSPC", "EDQUOT", "EROFS"]
    if c == "ioctl" and ev.get("req") == "FICLONE":
        return ["EIO", "ENOSPC", "EPERM", "EBADF"]
    if c == "ioctl" and ev.get("req") == "FIEMAP":
        return ["EIO", "EINTR", "ENOMEM"]
    return []


def where_of(ev):
    """coarse location of the object a call names: lets the stratified sample reach each probe kind"""
    p = ev.get("p")
    if p is None:
        p = ev.get("fdp")
        pre = "fd:"
    else:
        pre = ""
    if p is None:
        return ""
    if p.startswith("$ROOT/"):
        p = p[6:]
    top = p.split("/", 1)[0]
    depth = min(p.count("/"), 2)
    return "%s%s/%d" % (pre, "dst" if top in ("dst", "vol", "out") else "src", depth)


IO_CALLS = ("copy_file_range", "read", "pread64", "write", "pwrite64", "sendfile")


def clamps_for(ev):
    if ev["c"] in IO_CALLS and isinstance(ev.get("len"), int) and ev["len"] > 1:
        n = ev["len"]
        return sorted(set([1, n // 2, n - 1]))
    return []


class FCheck(SCheck):
    """one schedule per case; faults enumerated over the sites of the baseline run"""
    N = {"quick": 40, "thorough": 800}
    PER_CASE = {"quick": 60, "thorough": 100000}
    PAIRS = {"quick": 0, "thorough": 40}
    kinds = ("errno",)   # subset of errno, clamp, kill
    log = "sandbox"

    def items(self, tier, seed):
        for i in range(self.N[tier]):
            r = gen.rng_for(seed, self.prop, i)
            case = self.gen_case(r, i, tier)
            if case is None:
                continue
            gen.canon_case(case)
            plan = {"seed": r.randrange(1 << 48), "sched": gen.sched_plan(r, ustep=self.ustep_rate)}
            yield {"case": case, "plan": plan, "case_id": i, "per_case": self.PER_CASE[tier], "pairs": self.PAIRS[tier],
                   "pick_seed": r.randrange(1 << 48)}

    def candidates(self, events, nsites):
        """list of fault plans (dict additions to the plan)"""
        out = []
        for ev in events:
            s = ev.get("site")
            if s is None:
                continue
            if "errno" in self.kinds:
                for e in errnos_for(ev):
                    out.append({"faults": [{"site": s, "errno": e}], "_call": ev["c"], "_role": ev.get("role"), "_where": where_of(ev)})
            if "clamp" in self.kinds:
                for k in clamps_for(ev):
                    out.append({"faults": [{"site": s, "clamp": k}], "_call": ev["c"], "_role": ev.get("role")})
            if "kill" in self.kinds:
                out.append({"kill_at": s, "_call": ev["c"], "_role": ev.get("role")})
        return out

    def select(self, r, cands, limit):
        if len(cands) <= limit:
            return cands
        # stratified by (call, kind of fault): round-robin over strata, seeded order inside
        strata = {}
        for c in cands:
            key = (c["_call"], c.get("_where", ""), "kill" if "kill_at" in c else ("clamp" if "clamp" in c["faults"][0] else c["faults"][0]["errno"]))
            strata.setdefault(key, []).append(c)
        for v in strata.values():
            r.shuffle(v)
        keys = sorted(strata)
        r.shuffle(keys)
        out = []
        while len(out) < limit and any(strata.values()):
            for k in keys:
                if strata[k] and len(out) < limit:
                    out.append(strata[k].pop())
        return out

    def evaluate_fault(self, res, verdict, case, t0, plan, base):
        """default for fault runs: termination, protected objects, and exit 0 => T"""
        inv = case["steps"][-1]["inv"]
        f = oracle.termination_findings(res)
        if verdict is not None:
            exempt = self.exemptions(res)
            from .scheck import sparse_applicable
            f += oracle.check_tree(res, verdict, inv, case.get("umask", 0o022), t0, fault_exempt=exempt,
                                   sparse_ok=sparse_applicable(case, inv, plan))
        return f

    def exemptions(self, res):
        ex = set()
        for fl in res["stats"].get("faults", []):
            c = fl.get("fired") or ""
            if "xattr" in c:
                ex.add("xattr")
            if c == "fchown":
                ex.add("owner")
        return ex

    def retag(self, findings, res, plan, base_keys=()):
        return findings

    def run_item(self, sim, item):
        import random
        case = item["case"]
        plan = item["plan"]
        runs = []
        last = len(case["steps"]) - 1
        # history prefix (if any) runs fault-free under the same plan
        def prefix():
            for si in range(last):
                run_step(sim, case, si, plan, "none")
        prefix()
        res, verdict, t0 = run_step(sim, case, last, plan, self.log)
        bf = self.evaluate(res, verdict, case, last, t0, plan)
        runs.append(summarize(res, bf, plan, {"nontrivial": False, "baseline": True, "verdict": verdict.kind if verdict else None}))
        if res["outcome"]["kind"] in ("budget", "deadlock", "spin"):
            # the fault-free run itself does not terminate: nothing to enumerate faults over
            return {"runs": runs, "item": item, "case_id": item.get("case_id"), "sample": {"argv": [gen.argv_of(s["inv"]) for s in case["steps"]]}}
        base_keys = set((x.prop, x.cls, x.path) for x in bf)
        events = res.get("events", [])
        nsites = res["stats"]["sites"]
        cands = self.candidates(events, nsites)
        r = random.Random(item["pick_seed"])
        chosen = self.select(r, cands, item["per_case"])
        if item.get("only") is not None:
            chosen = [dict(item["only"], _call="?", _role="?")]
            item = dict(item, pairs=0)
        # pairs
        if item.get("pairs") and len(cands) > 1 and "errno" in self.kinds:
            es = [c for c in cands if "faults" in c]
            for _ in range(item["pairs"]):
                a, b = r.sample(es, 2)
                if a["faults"][0]["site"] == b["faults"][0]["site"]:
                    continue
                chosen.append({"faults": a["faults"] + b["faults"], "_call": a["_call"] + "+" + b["_call"], "_role": a["_role"]})
        for c in chosen:
            p2 = dict(plan)
            # bounded liveness: after the fault the run must end within a budget derived from the fault-free run
            p2["max_events"] = 20 * res["stats"]["steps"] + 5000
            if not c.get("faults") and c.get("kill_at") is None:
                continue
            if "faults" in c:
                p2["faults"] = c["faults"]
            if "kill_at" in c:
                p2["kill_at"] = c["kill_at"]
            prefix()
            res2, verdict2, t2 = run_step(sim, case, last, p2, self.log)
            f2 = self.evaluate_fault(res2, verdict2, case, t2, p2, res)
            f2 = self.retag(f2, res2, p2, base_keys)
            fired = any(x.get("fired") for x in res2["stats"].get("faults", [])) or res2["outcome"]["kind"] == "killed"
            p2 = robust_plan(p2, res2)
            runs.append(summarize(res2, f2, p2, {"nontrivial": bool(fired), "call": c["_call"], "role": c["_role"],
                                                 "probes": self.fault_probes(res2, c)}))
        return {"runs": runs, "item": item, "case_id": item.get("case_id"),
                "sample": {"argv": [gen.argv_of(s["inv"]) for s in case["steps"]], "setup": case.get("setup", [])[:10],
                           "baseline_sites": nsites, "faults_tried": [({k: v for k, v in c.items() if not k.startswith("_")}, c["_call"]) for c in chosen[:8]]}}

    def fault_probes(self, res, c):
        return {}

    def focus(self, item, run):
        """replay item that tries only the violating run's fault"""
        pl = run.get("plan") or {}
        if pl.get("faults") or pl.get("kill_at") is not None:
            return single_fault_item(item, pl)
        it = copy.deepcopy(item)
        it["only"] = {}
        it["per_case"] = 0
        return it

    def minimise(self, sim, item, f, deadline):
        """shrink the focused replay item (one fault or kill) while the same (property, class) reproduces: simplest scheduler, no
        user-space stepping, fewer setup entries, one worker.  Faults are addressed as "n-th call C on object P", so they stay on
        their call when unrelated entries disappear; a kill is addressed by site index and simply fails to reproduce (candidate
        rejected) when the index shifts."""
        import time
        if item.get("only") is None:
            return item
        best = copy.deepcopy(item)

        def reproduces(cand):
            try:
                rec = self.run_item(sim, cand)
            except Exception:
                return False
            return any(g["property"] == f["property"] and g["class"] == f["class"] for r in rec["runs"] for g in r["findings"])

        if best["plan"]["sched"].get("kind") != "rtb" and time.time() < deadline:
            cand = copy.deepcopy(best)
            cand["plan"]["sched"] = {"kind": "rtb"}
            if reproduces(cand):
                best = cand
        if any(k.startswith("ustep") for k in best["plan"]["sched"]) and time.time() < deadline:
            cand = copy.deepcopy(best)
            cand["plan"]["sched"] = {k: v for k, v in cand["plan"]["sched"].items() if not k.startswith("ustep")}
            if reproduces(cand):
                best = cand
        i = len(best["case"].get("setup", [])) - 1
        while i >= 0 and time.time() < deadline:
            cand = copy.deepcopy(best)
            del cand["case"]["setup"][i]
            if reproduces(cand):
                best = cand
            i -= 1
        for st in range(len(best["case"]["steps"])):
            inv = best["case"]["steps"][st].get("inv")
            if inv and inv.get("workers", 1) > 1 and time.time() < deadline:
                cand = copy.deepcopy(best)
                cand["case"]["steps"][st]["inv"]["workers"] = 1
                if reproduces(cand):
                    best = cand
        return best


def robust_plan(plan, res):
    """re-address every fault by (call, object, nth) so that a replay survives unrelated changes of the call sequence"""
    if not plan.get("faults"):
        return plan
    evs = res.get("events", [])
    out = []
    for fl in plan["faults"]:
        fl = dict(fl)
        ev = next((e for e in evs if e.get("site") == fl.get("site")), None)
        if ev is not None and "call" not in fl:
            pth = ev.get("p") if ev.get("p") is not None else ev.get("fdp", "")
            nth = sum(1 for e in evs if e.get("site") is not None and e["site"] < ev["site"] and e["c"] == ev["c"] and (e.get("p") if e.get("p") is not None else e.get("fdp", "")) == pth)
            fl.update(call=ev["c"], path=pth, nth=nth)
        out.append(fl)
    return dict(plan, faults=out)


def single_fault_item(item, run_plan):
    it = copy.deepcopy(item)
    it["only"] = {k: run_plan.get(k) for k in ("faults", "kill_at") if run_plan.get(k) is not None}
    return it
