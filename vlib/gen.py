"""Seeded case generation (DESIGN §3.1).  A case is plain JSON: sandbox setup ops, one or more invocations,
environment and simulated-kernel profile.  Everything is drawn from one random.Random derived from
(VERIF_SEED, property, case index)."""
import random, hashlib
from .model import pct

PAGE = 4096
BLOCK_SIZES = [1, 7, 4096, 65536, 1 << 20]
WORKERS = [1, 2, 3, 4, 8, 16, 64]
NAMES = ["a", "b.txt", "c d", "é", "f.tar.gz", "x%y", "-dash", "~t~", "q'q", "long" * 12]
BAD_NAMES = [b"\xff\xfe", b"n\xe9", b"sp \xc0\xaf"]


def rng_for(seed, prop, idx, purpose="case"):
    h = hashlib.sha256(("%s:%s:%s:%s" % (seed, prop, idx, purpose)).encode()).digest()
    return random.Random(int.from_bytes(h[:8], "little"))


def boundary_size(r, B, M=None, cap=300_000):
    """sizes at block / kernel-limit boundaries"""
    Bc = min(B, 1 << 16) if B > cap else B
    k = r.choice([1, 2, 3, 5])
    cands = [0, 1, Bc - 1, Bc, Bc + 1, k * Bc - 1, k * Bc, k * Bc + 1, r.randrange(0, cap)]
    if M:
        cands += [M - 1, M, M + 1, 2 * M + 1, M * 3]
    cands = [c for c in cands if 0 <= c <= cap]
    return r.choice(cands)


def dense(size, pat):
    return [[0, size, pat]] if size > 0 else []


def sparse_layout(r, style=None, max_apparent=64 << 20, max_runs=6, hole_min=1 << 20):
    """returns (len, runs) with page-aligned data runs separated by holes >= hole_min"""
    style = style or r.choice(["lead", "trail", "inter", "empty", "many", "tail-unaligned"])
    runs = []
    if style == "empty":
        return r.choice([hole_min, 4 * hole_min, 16 * hole_min + 123]), []
    pos = 0
    n = {"lead": 1, "trail": 1, "inter": r.randrange(2, max_runs + 1), "many": r.randrange(3, max_runs + 1), "tail-unaligned": 2}[style]
    if style in ("lead", "inter", "many") and r.random() < 0.8 or style == "lead":
        pos += hole_min * r.randrange(1, 4)
    for i in range(n):
        ln = PAGE * r.randrange(1, 9)
        runs.append([pos, ln, r.randrange(1, 1 << 30)])
        pos += ln
        if i + 1 < n:
            pos += hole_min * r.randrange(1, 4)
    if style in ("trail", "inter", "many") and r.random() < 0.7 or style == "trail":
        pos += hole_min * r.randrange(1, 4)
    elif style == "tail-unaligned":
        # last run ends at an unaligned EOF
        cut = r.randrange(1, PAGE)
        runs[-1][1] -= cut
        pos -= cut
    return pos, runs


def f_op(path, size, runs=None, pat=None, **kw):
    op = {"op": "file", "p": path, "len": size, "runs": runs if runs is not None else dense(size, pat or 1)}
    op.update({k: v for k, v in kw.items() if v is not None})
    return op


def d_op(path, **kw):
    op = {"op": "dir", "p": path}
    op.update({k: v for k, v in kw.items() if v is not None})
    return op


def l_op(path, to, **kw):
    op = {"op": "symlink", "p": path, "to": to}
    op.update({k: v for k, v in kw.items() if v is not None})
    return op


def n_op(path, kind, major=0, minor=0, mode=0o644):
    return {"op": "node", "p": path, "kind": kind, "major": major, "minor": minor, "mode": mode}


def mk_inv(sources, dest, driver="parfile", workers=4, block_size=65536, **flags):
    return {"sources": list(sources), "dest": dest, "driver": driver, "workers": workers, "block_size": block_size, "flags": flags}


def argv_of(inv):
    fl = inv.get("flags", {})
    a = ["xcp"]
    if inv.get("driver"):
        a += ["--driver", inv["driver"]]
    if inv.get("workers") is not None:
        a += ["-w", str(inv["workers"])]
    if inv.get("block_size") is not None:
        a += ["--block-size", str(inv["block_size"])]
    if fl.get("r"):
        a.append("-r")
    if fl.get("T"):
        a.append("-T")
    if fl.get("L"):
        a.append("-L")
    if fl.get("n"):
        a.append("-n")
    if fl.get("f"):
        a.append("-f")
    if fl.get("backup") and fl["backup"] != "none":
        a.append("--backup=" + fl["backup"])
    if fl.get("gitignore"):
        a.append("--gitignore")
    if fl.get("glob"):
        a.append("--glob")
    if fl.get("no_perms"):
        a.append("--no-perms")
    if fl.get("no_timestamps"):
        a.append("--no-timestamps")
    if fl.get("ownership"):
        a.append("--ownership")
    if fl.get("fsync"):
        a.append("--fsync")
    if fl.get("reflink"):
        a.append("--reflink=" + fl["reflink"])
    if fl.get("no_progress"):
        a.append("--no-progress")
    for x in fl.get("raw", []):
        a.append(x)
    if fl.get("target_dir"):
        a += ["--target-directory", inv["dest"]]
        a += list(inv["sources"])
    else:
        a += list(inv["sources"])
        if inv.get("dest") is not None:
            a.append(inv["dest"])
    return a


def pick_config(r, multiblock=False):
    driver = r.choice(["parfile", "parblock"])
    workers = r.choice(WORKERS)
    bs = r.choice(BLOCK_SIZES if not multiblock else [4096, 65536, 7, 1 << 20])
    return driver, workers, bs


def small_tree(r, root="src", nfiles=None, depth=2, links=True, specials=False, odd_names=False, sizes=None, bs=65536):
    """a small source tree; returns setup ops"""
    ops = [d_op(root, mode=r.choice([0o755, 0o700, 0o775]))]
    dirs = [root]
    nd = r.randrange(0, 4)
    for i in range(nd):
        parent = r.choice(dirs)
        if parent.count("/") >= depth:
            continue
        nm = r.choice(["sub", "d%d" % i, "dir with space", ".hid"]) + str(i)
        dirs.append(parent + "/" + nm)
        ops.append(d_op(parent + "/" + nm))
    nf = nfiles if nfiles is not None else r.randrange(1, 7)
    files = []
    used = set()
    for i in range(nf):
        parent = r.choice(dirs)
        nm = (r.choice(NAMES) if odd_names and r.random() < 0.5 else "f%d" % i)
        if odd_names and r.random() < 0.15:
            nm = pct(r.choice(BAD_NAMES) + str(i).encode())
        p = parent + "/" + nm
        if p in used:
            continue
        used.add(p)
        size = (sizes(r) if sizes else boundary_size(r, bs, cap=200_000))
        ops.append(f_op(p, size, pat=r.randrange(1, 1 << 30), mode=r.choice([0o644, 0o600, 0o755, 0o444])))
        files.append(p)
    if links and files:
        for i in range(r.randrange(0, 3)):
            parent = r.choice(dirs)
            tgt = r.choice(["f0", "../f0", "nowhere", "$ROOT/" + files[0], "."])
            p = parent + "/ln%d" % i
            if p not in used:
                used.add(p)
                ops.append(l_op(p, tgt))
    if specials:
        for i in range(r.randrange(1, 3)):
            parent = r.choice(dirs)
            k = r.choice(["fifo", "sock", "chr"])
            ops.append(n_op(parent + "/sp%d" % i, k, r.randrange(1, 255), r.randrange(0, 255), r.choice([0o644, 0o600, 0o666])))
    return ops


def sched_plan(r, est=300, ustep=0.12):
    kind = r.choice(["random", "random", "pct", "pct", "rtb"])
    s = {"kind": kind}
    if kind == "pct":
        s["d"] = r.choice([1, 2, 3, 5])
        s["est"] = est
    # user-space preemption (single-stepping): about a third of the plans also park threads *between* system calls, so that
    # check-then-act sequences on shared memory with no call in between are split.  Two modes: "atomic" parks a seeded number
    # of instructions after the n-th LOCK-prefixed / xchg instruction of a segment (the scheduling points of loom / shuttle;
    # measured 10x more effective against a seeded lost-update race than blind counts), "blind" after a log-uniform count.
    if ustep and r.random() < float(ustep):
        s["ustep_budget"] = 60  # preemption attempts per run (at most about 0.3 s of single-stepping)
        if r.random() < 0.7:
            s["ustep_p"], s["ustep_max"] = r.choice([(0.1, 150), (0.15, 200), (0.3, 100)])
            s["ustep_locks"] = r.choice([3, 4, 6])
            s["ustep_after"] = r.choice([16, 24, 32])
            s["ustep_hold"] = r.choice([0, 4, 6, 8, 40, 400])  # the last two: a thread descheduled for a long time while the others run on
        else:
            s["ustep_p"], s["ustep_max"] = r.choice([(0.05, 200), (0.3, 40), (0.02, 3000), (0.1, 600)])
        if r.random() < 0.3:
            s["ustep_main"] = True
    return s


def canon(x):
    """canonical percent-encoding of a path spelling (the form the supervisor reports)"""
    from .model import unpct
    if x is None:
        return None
    return pct(unpct(x))


def canon_case(case):
    for op in case.get("setup", []):
        for k in ("p", "to"):
            if k in op:
                op[k] = canon(op[k])
    for st in case.get("steps", []):
        for op in st.get("edits", []) or []:
            for k in ("p", "to"):
                if k in op:
                    op[k] = canon(op[k])
        inv = st.get("inv")
        if inv:
            inv["sources"] = [canon(x) for x in inv.get("sources", [])]
            if inv.get("dest") is not None:
                inv["dest"] = canon(inv["dest"])
    return case


def mount_op(path):
    """a second file system (its own st_dev) mounted inside the sandbox"""
    return {"op": "mount", "p": path}


FIEMAP_FLAGBITS = [0x800, 0x4, 0x1000, 0x2000, 0x100, 0x800 | 0x4]  # UNWRITTEN, DELALLOC, MERGED, SHARED, NOT_ALIGNED


def swarm_flags(r, flags, allow=("fsync", "no_perms", "no_timestamps", "ownership", "reflink", "no_progress"), p=0.12):
    """swarm-style option diversity: each harmless option is switched on independently with small probability"""
    for k in allow:
        if k in flags:
            continue
        if r.random() < p:
            flags[k] = r.choice(["auto", "never"]) if k == "reflink" else True
    return flags
