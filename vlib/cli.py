import sys, os, importlib, argparse
from . import build, campaign


def load(pid):
    m = importlib.import_module("vlib.props." + pid.lower())
    return m.CHECK()


def main():
    ap = argparse.ArgumentParser()
    ap.add_argument("what")
    ap.add_argument("--tier", default=os.environ.get("VERIF_TIER", "quick"))
    ap.add_argument("--replay")
    ap.add_argument("--budget", type=float, default=float(os.environ.get("VERIF_BUDGET_S", "0")) or None)
    a = ap.parse_args()
    try:
        if a.what == "setup":
            build.build_all(probe=os.path.exists(os.path.join(build.VERIF, "probe", "Cargo.toml")), fallback=hasattr(build, "build_fallback"))
            print("setup ok")
            return 0
        if a.what == "selftest":
            from . import selftest
            return selftest.main(a.tier)
        chk = load(a.what)
        if a.replay:
            return campaign.replay(chk, a.replay)
        seed = int(os.environ.get("VERIF_SEED", chk.default_seed))
        budget = a.budget
        if budget is None and a.tier == "thorough":
            # wall-clock cap of the thorough tier (VERIF_BUDGET_S / --budget override it); the evidence says when it cut the campaign short
            budget = 1200.0
        return campaign.execute(chk, a.tier, seed, budget)
    except build.HarnessError as e:
        print("HARNESS-ERROR %s" % e)
        return 2


if __name__ == "__main__":
    sys.exit(main())
