"""Reference model of the *specified* behaviour of xcp (DESIGN §3.2).  Independent of threads, blocks and
drivers: from the pre-state snapshot and one invocation it computes a verdict

   reject    – the invocation cannot be honoured (C16): exit != 0 and nothing may change
   mustfail  – exit != 0 is required (no-clobber collision, dangling -L, block device ...)
   expect    – if (and only if we see) exit 0, the sandbox must equal the expected tree T
   undefined – outside the modelled domain (the generators avoid it; oracles skip it)

Paths are sandbox-relative byte-strings carried as percent-encoded str (see util.pct in the supervisor)."""
import posixpath
from urllib.parse import unquote_to_bytes, quote_from_bytes

SAFE = b" !#$&'()*+,-./:;<=>?@[]^_`{|}~"


def pct(b):
    if isinstance(b, str):
        b = b.encode()
    return quote_from_bytes(b, safe=SAFE)


def unpct(s):
    return unquote_to_bytes(s)


def norm(p):
    """lexical normalisation of a sandbox path spelling (str, already unquoted text)"""
    if p.startswith("$ROOT"):
        p = p[5:].lstrip("/")
        if p == "":
            return "."
    q = posixpath.normpath(p)
    return q


def basename_spelling(p):
    """Path::components().next_back() of the spelling: trailing slashes and '.' components vanish"""
    comps = [c for c in p.split("/") if c not in ("", ".")]
    if not comps:
        return None
    return comps[-1]


class Tree:
    """A snapshot (list of entries from xcpsim) with symlink-aware resolution."""

    def __init__(self, entries):
        self.e = {x["p"]: x for x in entries}

    def get(self, p):
        return self.e.get(p)

    def children(self, p):
        pre = "" if p in (".", "") else p + "/"
        out = []
        for k in self.e:
            if k.startswith(pre) and "/" not in k[len(pre):] and k != p:
                out.append(k)
        return sorted(out)

    def subtree(self, p):
        pre = p + "/"
        return [k for k in self.e if k == p or k.startswith(pre)]

    def resolve(self, p, follow_last=True, depth=0):
        """physical path of p (following symlinks in every component, and in the last one if asked);
        returns (path, entry) with entry None if the last component does not exist,
        or (None, reason) for dangling / loop / outside-sandbox links."""
        if depth > 40:
            return (None, "loop")
        p = norm(p)
        if p == ".":
            return (".", {"k": "d", "p": "."})
        comps = p.split("/")
        cur = ""
        for i, c in enumerate(comps):
            if c == "..":
                cur = posixpath.dirname(cur)
                continue
            nxt = c if cur == "" else cur + "/" + c
            ent = self.e.get(nxt)
            last = i == len(comps) - 1
            if ent is None:
                if last:
                    return (nxt, None)
                return (None, "missing-parent")
            if ent["k"] == "l" and (not last or follow_last):
                to = unpct(ent["to"]).decode("utf-8", "surrogateescape")
                if to.startswith("$ROOT"):
                    tgt = to[5:].lstrip("/") or "."
                elif to.startswith("/"):
                    return (None, "outside")
                else:
                    base = posixpath.dirname(nxt)
                    tgt = posixpath.normpath(posixpath.join(base, to)) if base else posixpath.normpath(to)
                    if tgt.startswith(".."):
                        return (None, "outside")
                rest = "/".join(comps[i + 1:])
                full = tgt if not rest else tgt + "/" + rest
                return self.resolve(full, follow_last, depth + 1)
            if not last and ent["k"] != "d":
                return (None, "notdir")
            cur = nxt
        return (cur if cur else ".", self.e.get(cur) if cur else {"k": "d", "p": "."})

    def kind(self, p, follow=True):
        r, ent = self.resolve(p, follow)
        if r is None or ent is None:
            return None
        return ent["k"]


class Verdict:
    def __init__(self, kind, why="", expect=None, mapped=None, selected=None, collisions=None, notes=None):
        self.kind = kind
        self.why = why
        self.expect = expect or {}   # path -> spec
        self.mapped = mapped or {}   # dest path -> source path
        self.selected = selected or []
        self.collisions = collisions or []
        self.notes = notes or []

    def __repr__(self):
        return "Verdict(%s %s %d mapped)" % (self.kind, self.why, len(self.mapped))


def backup_numbers(tree, tgt):
    """numbers N of existing siblings named exactly <name>.~N~"""
    import re
    parent = posixpath.dirname(tgt)
    name = posixpath.basename(tgt)
    rx = re.compile(re.escape(name) + r"\.~(\d+)~")
    out = []
    for ch in tree.children(parent if parent else "."):
        m = rx.fullmatch(ch.rsplit("/", 1)[-1])
        if m:
            out.append(int(m.group(1)))
    return out


def glob_match(tree, pattern):
    """glob crate semantics restricted to the generator's patterns: *, ? and literals per component,
    names with a leading dot only match literal dots."""
    import fnmatch
    comps = [c for c in pattern.split("/") if c not in ("", ".")]
    cur = [""]
    for i, c in enumerate(comps):
        nxt = []
        for base in cur:
            if any(ch in c for ch in "*?["):
                for ch in tree.children(base if base else "."):
                    name = ch.rsplit("/", 1)[-1]
                    if name.startswith(".") and not c.startswith("."):
                        continue
                    if fnmatch.fnmatchcase(name, c):
                        nxt.append(ch)
            else:
                cand = c if not base else base + "/" + c
                r, ent = tree.resolve(cand, follow_last=False)
                if r is not None and ent is not None:
                    nxt.append(cand)
        cur = nxt
    return sorted(cur)


def walk(tree, top, deref, out, rel="", seen=None, notes=None):
    """append (physical source path, rel path under the top, kind) for the selection below `top`"""
    if deref:
        r, ent = tree.resolve(top, follow_last=True)
        if r is None or ent is None:
            out.append((top, rel, "dangling"))
            return
        phys = r
    else:
        ent = tree.get(top)
        phys = top
        if ent is None:
            return
    k = ent["k"]
    out.append((phys, rel, k))
    if k == "d":
        seen = (seen or set())
        if phys in seen:
            out.append((phys, rel, "cycle"))
            return
        seen = seen | {phys}
        for ch in tree.children(phys):
            name = ch.rsplit("/", 1)[-1]
            walk(tree, (top + "/" + name) if deref else ch, deref, out, (rel + "/" + name) if rel else name, seen, notes)


def evaluate(pre_entries, inv, umask=0o022, ignore=None, clone_ok=False):
    """inv: {"sources":[spelling...], "dest": spelling|None, "flags": {...}}"""
    t = Tree(pre_entries)
    fl = inv.get("flags", {})
    srcs = list(inv.get("sources", []))
    dest = inv.get("dest")
    if fl.get("bad_option"):
        return Verdict("reject", "bad-option")
    if fl.get("n") and fl.get("f"):
        return Verdict("reject", "noclobber-and-force")
    if dest is None or not srcs:
        return Verdict("reject", "no-source")
    if fl.get("glob"):
        exp = []
        for s in srcs:
            if fl.get("bad_glob"):
                return Verdict("reject", "bad-glob")
            m = glob_match(t, s)
            if not m:
                return Verdict("reject", "missing-source-glob")
            exp.extend(m)
        srcs = exp
    dest_n = norm(dest)
    dr, dent = t.resolve(dest_n, follow_last=True)
    if dr is None:
        # dangling / looping destination link: is_dir() and exists() are false
        dest_kind = None
        if dent == "missing-parent" or dent == "notdir":
            pass
    else:
        dest_kind = dent["k"] if dent else None
    dest_is_dir = dest_kind == "d"
    # sources must exist (following links), directories need -r
    for s in srcs:
        sr, sent = t.resolve(norm(s), follow_last=True)
        if sr is None or sent is None:
            # a dangling top-level symlink "does not exist" for xcp; the properties only say a
            # missing source is rejected, so a dangling link as a source is outside the model
            ln = t.resolve(norm(s), follow_last=False)
            if ln[0] is not None and ln[1] is not None and ln[1]["k"] == "l":
                return Verdict("undefined", "dangling-top-level-link")
            return Verdict("reject", "missing-source")
    if not dest_is_dir:
        if len(srcs) > 1:
            return Verdict("reject", "multi-source-nondir-dest")
    for s in srcs:
        sk = t.kind(norm(s), True)
        if sk == "d" and not fl.get("r"):
            return Verdict("reject", "dir-without-recursive")
    if not dest_is_dir and len(srcs) == 1 and t.kind(norm(srcs[0]), True) == "d" and dest_kind is not None:
        return Verdict("reject", "dir-onto-file")

    expect = {}
    mapped = {}
    selected = []
    collisions = []
    dup_target = False
    mustfail = None
    notes = []
    for s in srcs:
        s_n = norm(s)
        base = basename_spelling(s)
        if base is None or base == "..":
            return Verdict("undefined", "source-ends-in-dot")
        if dest_is_dir and not fl.get("T"):
            tb = posixpath.normpath(dest_n + "/" + base)
        else:
            tb = dest_n
        # identity of source and mapped target
        s_phys, _ = t.resolve(s_n, follow_last=False)
        tb_parent = posixpath.dirname(tb)
        tp, _ = t.resolve(tb_parent, True) if tb_parent else (".", None)
        tb_phys = None
        if tp is not None:
            tb_phys = posixpath.basename(tb) if tp in (".", "") else tp + "/" + posixpath.basename(tb)
        if tb_phys is not None and t.kind(s_n, True) == "d":
            # a directory mapped onto a symbolic link to a directory goes *through* the link (cp -rT src link does the same)
            le = t.get(tb_phys)
            if le is not None and le["k"] == "l":
                rr, re_ = t.resolve(tb_phys, follow_last=True)
                if rr is not None and re_ is not None and re_["k"] == "d":
                    tb_phys = rr
        if s_phys is not None and (s_phys == tb_phys or s_phys == norm(dest_n)):
            return Verdict("reject", "source-is-destination")
        if tb_phys is None:
            return Verdict("undefined", "destination-parent-unresolvable")
        if len(srcs) == 1 and s_phys is not None:
            # the one source and its mapped target are the same file under another name: a symbolic link or a hard link to it
            s_ent = t.get(s_phys)
            t_res, t_ent = t.resolve(tb_phys, follow_last=True)
            if s_ent is not None and s_ent["k"] != "d" and t_res is not None and t_ent is not None and "o" in s_ent and \
                    (t_res == s_phys or t_ent.get("o") == s_ent.get("o")):
                return Verdict("reject", "source-is-destination")
        if s_phys is not None and (tb_phys + "/").startswith(s_phys + "/") and t.kind(s_n, True) == "d":
            return Verdict("undefined", "destination-inside-source")
        sel = []
        walk(t, s_phys, bool(fl.get("L")), sel)
        # gitignore filter: decided by the generator's git oracle
        if ignore is not None and fl.get("gitignore"):
            ig = ignore.get(s, set())
            sel = [x for x in sel if not any(x[1] == i or x[1].startswith(i + "/") for i in ig)]
        for phys, rel, k in sel:
            tgt = tb_phys if rel == "" else tb_phys + "/" + rel
            selected.append((phys, rel, k, tgt))
            if k in ("dangling", "cycle"):
                mustfail = mustfail or ("deref-" + k)
                continue
            if k == "b" or k == "?":
                mustfail = mustfail or "unsupported-kind"
                continue
            pre_t = t.get(tgt)
            if tgt in mapped and mapped[tgt] != phys:
                # cp refuses this ("will not overwrite just-created"); xcp does not define which source wins.  Nothing is claimed
                # about the mapped paths, but entries no source maps onto stay protected (the verdict carries the mapping)
                dup_target = True
                continue
            if pre_t is not None and k != "d":
                collisions.append(tgt)
            src_e = t.get(phys)
            spec = {"k": k, "src": phys}
            if k == "f":
                spec["h"] = src_e.get("h")
                spec["size"] = src_e.get("size")
                spec["segs"] = src_e.get("segs")
                spec["src_blocks"] = src_e.get("blocks")
                # metadata per flags (C10)
                prev_mode = pre_t["mode"] if (pre_t is not None and pre_t["k"] == "f") else (0o666 & ~umask)
                bmode = fl.get("backup", "none")
                if bmode in ("numbered", "auto") and pre_t is not None:
                    if pre_t["k"] not in ("f", "l"):
                        return Verdict("undefined", "backup-of-non-file")
                    nums = backup_numbers(t, tgt)
                    if bmode == "numbered" or nums:
                        n = (max(nums) if nums else 0) + 1
                        bpath = "%s.~%d~" % (tgt, n)
                        bspec = {"k": pre_t["k"], "moved_from": tgt, "same_as_pre": pre_t}
                        expect[bpath] = bspec
                        mapped[bpath] = None
                        prev_mode = 0o666 & ~umask
                spec["mode"] = prev_mode if fl.get("no_perms") else src_e["mode"]
                # --no-perms with --ownership: chown(2) itself strips set-ID bits of the mode the destination happens
                # to have; the property's "without losing any permission bit" is about transferred permissions
                spec["mode_alt"] = (prev_mode & ~0o6000) if (fl.get("no_perms") and fl.get("ownership")) else None
                spec["mtime"] = None if fl.get("no_timestamps") else src_e["mtime"]
                spec["not_mtime"] = src_e["mtime"] if fl.get("no_timestamps") else None
                spec["xattrs"] = None if fl.get("no_perms") else src_e.get("xattrs", {})
                if fl.get("ownership"):
                    spec["uid"] = src_e["uid"]
                    spec["gid"] = src_e["gid"]
            elif k == "l":
                spec["to"] = src_e.get("to")
            elif k in ("c",):
                spec["major"] = src_e.get("major")
                spec["minor"] = src_e.get("minor")
                spec["mode"] = src_e["mode"] & ~umask
            elif k in ("p", "s"):
                spec["mode"] = src_e["mode"] & ~umask
            expect[tgt] = spec
            mapped[tgt] = phys
    if dup_target:
        return Verdict("undefined", "two-sources-one-target", expect, mapped, selected, collisions, notes)
    if fl.get("backup") in ("numbered", "auto"):
        # a source whose mapped name is itself "<other mapped file>.~N~" enters (or briefly leaves, while it is being replaced) the
        # backup name space of that other file during the very run that decides about its backups: whether and under which number
        # the other file is backed up then depends on the order the two are copied in.  No version is lost either way; the model
        # makes no claim about the destination for such an invocation
        import re
        files = [t_ for t_, sp in expect.items() if sp.get("k") == "f" and "same_as_pre" not in sp]
        for a in files:
            rx = re.compile(re.escape(a) + r"\.~\d+~")
            if any(b != a and rx.fullmatch(b) for b in files):
                return Verdict("undefined", "source-named-like-a-backup-of-another-source")
    # a mapped path whose parent chain passes through a mapped non-directory is undefined
    if fl.get("n") and collisions:
        mustfail = mustfail or "noclobber-collision"
    if fl.get("reflink") == "always" and not clone_ok and any(v["k"] == "f" for v in expect.values()):
        mustfail = mustfail or "reflink-always-unsupported"
    if mustfail:
        return Verdict("mustfail", mustfail, expect, mapped, selected, collisions, notes)
    return Verdict("expect", "", expect, mapped, selected, collisions, notes)
