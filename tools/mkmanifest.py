#!/usr/bin/env python3
"""Regenerate MANIFEST.json from the check classes present in vlib/props."""
import json, os, sys, importlib
ROOT = os.path.dirname(os.path.dirname(os.path.abspath(__file__)))
sys.path.insert(0, ROOT)
props = [json.loads(l) for l in open(os.path.join(ROOT, "properties.jsonl"))]
NA = {}
if os.path.exists(os.path.join(ROOT, "tools", "not_applicable.json")):
    NA = json.load(open(os.path.join(ROOT, "tools", "not_applicable.json")))
checks = []
na = []
for p in props:
    pid = p["id"]
    path = os.path.join(ROOT, "vlib", "props", pid.lower() + ".py")
    if os.path.exists(path) and pid not in NA:
        m = importlib.import_module("vlib.props." + pid.lower())
        c = m.CHECK()
        checks.append({
            "property_id": pid,
            "quick_cmd": "./check %s --tier quick" % pid,
            "thorough_cmd": "./check %s --tier thorough" % pid,
            "evidence_file": "evidence/%s.json" % pid,
            "replay_cmd_template": "./check %s --replay {path}" % pid,
            "engine": "xcpsim",
            "level_claimed": {"category": c.level, "text": getattr(c, "level_text", c.rule), "design_ref": "DESIGN.md section 5, " + pid},
            "level_note": "; ".join(c.assumptions) if c.assumptions else "see DESIGN.md sections 2 and 10",
            "technique": c.technique,
        })
    else:
        na.append({"property_id": pid, "reason": NA.get(pid, "check not built yet (work in progress; see DESIGN.md section 5)")})
m = {
    "version": 1,
    "setup_cmd": "./check setup",
    "hooks": {"guard": "none (the seam is the system-call boundary; there are no source hooks in /repo)",
              "enable": "not needed: every check builds /repo's working tree unmodified (cargo build --release --offline, target dir /verif/.cache)",
              "baseline_off_cmd": "cd /repo && (cargo nextest run --workspace --no-fail-fast --offline || cargo test --workspace --no-fail-fast --offline)",
              "source_commits": [], "add_only": True},
    "engines": [{"name": "xcpsim", "path": "sim/", "serves_properties": [c["property_id"] for c in checks],
                 "kind_free_text": "ptrace token-passing supervisor around the unmodified xcp binary: seeded scheduler (random/PCT/run-to-block/starve/explicit) with preemption at every system call and, by single-stepping, after atomic instructions in user space; emulated futex queues with timed waits on a simulated clock (vDSO switched off at exec; seeded time jumps), simulated kernel (errno injection, short transfers, kill, FIEMAP/FICLONE emulation, directory-order permutation), tmpfs sandbox builder and snapshotter; python campaign engine with reference model, oracles, minimiser and replay"}],
    "checks": checks,
    "not_applicable": na,
    "notes": "Exit codes: 0 held, 1 VIOLATION (with replay file), 2 harness error. known_findings.json lists recorded defects (open) and repaired ones (fixed, with the fix: commit); witnesses under witness/ are re-run by the owning check.",
}
json.dump(m, open(os.path.join(ROOT, "MANIFEST.json"), "w"), indent=1)
print("checks:", [c["property_id"] for c in checks])
