#!/usr/bin/env python3
"""Regression of the machinery against every stored seeded change: for each seeded/<id>/ run the checks named in its meta.json
(caught_by) in worktree mode and report which still catch it.   tools/seeded_matrix.py [-j N] [ids...]  -> seeded/MATRIX.txt"""
import json, os, subprocess, sys, concurrent.futures as cf
ROOT = os.path.dirname(os.path.dirname(os.path.abspath(__file__)))
args = sys.argv[1:]
J = 4
if args and args[0] == "-j":
    J = int(args[1]); args = args[2:]
ids = args or sorted(d for d in os.listdir(os.path.join(ROOT, "seeded")) if os.path.exists(os.path.join(ROOT, "seeded", d, "meta.json")))
tier = os.environ.get("MATRIX_TIER", "quick")

def one(sid):
    meta = json.load(open(os.path.join(ROOT, "seeded", sid, "meta.json")))
    if meta.get("neutralised_by"):
        return sid, {}, "neutralised by " + meta["neutralised_by"]["commit"]
    checks = [c.split()[0] for c in meta["checks"]["caught_by"] if "(thorough)" not in c] or [meta["property"]]
    env = dict(os.environ, VERIF_NPROC=str(max(2, 16 // J)))
    p = subprocess.run([sys.executable, os.path.join(ROOT, "tools", "mutant_wt.py"), os.path.join(ROOT, "seeded", sid, "patch.diff"), ",".join(checks), tier],
                       capture_output=True, text=True, env=env)
    res = {}
    for l in p.stdout.splitlines():
        if l.startswith("== "):
            w = l.split()
            res[w[1]] = int(w[2].split("=")[1])
    with open(os.environ.get("MATRIX_PROGRESS", "/dev/shm/matrix.progress"), "a") as fh:
        fh.write("%s %s\n" % (sid, res))
    return sid, res, p.stdout[-400:] if not res else ""

with cf.ThreadPoolExecutor(J) as ex:
    out = list(ex.map(one, ids))
lines = []
missed = 0
for sid, res, err in out:
    caught = [c for c, rc in res.items() if rc == 1]
    other = ["%s:rc%d" % (c, rc) for c, rc in res.items() if rc != 1]
    st = "CAUGHT" if caught else ("N/A   " if err.startswith("neutralised") else "MISSED")
    missed += (not caught and not err.startswith("neutralised"))
    lines.append("%-6s %s by %s%s%s" % (sid, st, ",".join(caught) or "-", ("  (not by " + ",".join(other) + ")") if other else "", ("  " + err.replace("\n", " | ")) if err else ""))
open(os.path.join(ROOT, "seeded", "MATRIX.txt"), "w").write("tier=%s head=%s\n" % (tier, subprocess.run(["git", "-C", ROOT, "rev-parse", "--short", "HEAD"], capture_output=True, text=True).stdout.strip()) + "\n".join(lines) + "\n")
print("\n".join(lines))
print("missed: %d of %d" % (missed, len(out)))
