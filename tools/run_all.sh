#!/bin/bash
# tools/run_all.sh <quick|thorough> [ids...] : run the checks one after another, one summary line each (logs under $OUT)
tier=${1:-quick}; shift
ids=${@:-C01 C02 C03 C04 C05 C06 C07 C08 C09 C10 C11 C12 C13 C14 C15 C16 C17 C18 C19 C20}
cd "$(dirname "$0")/.." || exit 2
OUT=${OUT:-/dev/shm/run_all.$$}; mkdir -p $OUT
for i in $ids; do s=$(date +%s); ./check $i --tier $tier > $OUT/$i.log 2>&1; rc=$?; e=$(date +%s)
  echo "$i rc=$rc $((e-s))s | $(tail -1 $OUT/$i.log)"; grep -E "^(VIOLATION|  class|HARNESS|NOTE)" $OUT/$i.log | head -8; done
