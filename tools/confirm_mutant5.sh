#!/bin/bash
# tools/confirm_mutant.sh <Cxx> <a|b> : confirm a seeded change in its scratch worktree (never in /repo):
# applies on top of /repo's HEAD, builds, runs the pinned test suite, runs the demonstration with and without the change.
id=$1; x=$2; wt=/tmp/mut5/$id; out=/tmp/mut5/$id.out; log=$out/confirm_$x.txt
exec > $log 2>&1
cd $wt || exit 9
git checkout -q -- . ; git checkout -q --detach $(git -C /repo rev-parse HEAD) || exit 9
diff=$out/$x.diff; [ -f $out/$x.rebased.diff ] && diff=$out/$x.rebased.diff
echo "== apply $diff on $(git rev-parse --short HEAD)"
git apply $diff || { echo "RESULT apply-failed"; exit 1; }
cargo build -j 6 --offline 2>&1 | tail -2
cargo test -j 6 --workspace --no-fail-fast --offline 2>&1 | grep -E "^test .* FAILED|^test result|panicked" | sort | uniq -c | sort -rn | head -30 > $out/tests_$x.confirm.txt
nfail=$(grep -c "FAILED" $out/tests_$x.confirm.txt)
echo "tests: $(grep -h 'FAILED' $out/tests_$x.confirm.txt | awk '{print $3}' | sort | tr '\n' ' ')"
demo=$out/demo_$x.sh
echo "== demo with mutant"
timeout 900 bash $demo > $out/demo_$x.mut.log 2>&1; rc_m=$?
git checkout -q -- .
cargo build -j 6 --offline 2>&1 | tail -1
echo "== demo pristine"
timeout 900 bash $demo > $out/demo_$x.pri.log 2>&1; rc_p=$?
echo "RESULT failing_tests=$nfail demo_mutant_rc=$rc_m demo_pristine_rc=$rc_p"
rm -rf $wt/target
