#!/usr/bin/env python3
"""Apply a seeded change to /repo, run the given checks against it, and undo it straight afterwards.
   tools/mutant.py <patch.diff> C01,C05 [quick|thorough]
Evidence and replay files of these runs go to a scratch directory, never to /verif/evidence."""
import os, subprocess, sys, tempfile, shutil
patch = os.path.abspath(sys.argv[1])
props = sys.argv[2].split(",")
tier = sys.argv[3] if len(sys.argv) > 3 else "quick"
ROOT = os.path.dirname(os.path.dirname(os.path.abspath(__file__)))
scratch = tempfile.mkdtemp(prefix="mutant.", dir="/dev/shm")
env = dict(os.environ, VERIF_EVIDENCE_DIR=os.path.join(scratch, "evidence"), VERIF_REPLAY_DIR=os.path.join(scratch, "replays"))
st = subprocess.run(["git", "-C", "/repo", "status", "--porcelain", "--untracked-files=no"], capture_output=True, text=True).stdout.strip()
if st:
    sys.exit("refusing: /repo has uncommitted changes:\n" + st)
r = subprocess.run(["git", "-C", "/repo", "apply", patch])
if r.returncode != 0:
    sys.exit("patch does not apply")
res = {}
try:
    for p in props:
        pr = subprocess.run([os.path.join(ROOT, "check"), p, "--tier", tier], env=env, capture_output=True, text=True)
        lines = [l for l in pr.stdout.splitlines() if l.startswith(("VIOLATION", "  class", "HARNESS", "KNOWN"))]
        res[p] = (pr.returncode, lines, pr.stdout.splitlines()[-1] if pr.stdout.strip() else pr.stderr[-300:])
finally:
    subprocess.run(["git", "-C", "/repo", "checkout", "--", "."])
for p, (rc, lines, last) in res.items():
    print("== %s rc=%d  %s" % (p, rc, last))
    for l in lines[:12]:
        print("   " + l[:260])
print("scratch (replays):", scratch)
