#!/usr/bin/env python3
"""Copy the confirmed seeded changes from the scratch area into /verif/seeded/<id>/ (patch.diff, the demonstration,
the author's notes, meta.json).  The table below is the record of what each change needs and which checks catch it;
it is filled in by hand from the runs of tools/confirm_mutant.sh (scratch worktree) and tools/mutant.py (checks)."""
import json, os, shutil, subprocess, sys

ROOT = os.path.dirname(os.path.dirname(os.path.abspath(__file__)))
SRC = sys.argv[1] if len(sys.argv) > 1 else "/tmp/mut"
TABMOD = sys.argv[2] if len(sys.argv) > 2 else "tools.seeded_table"
CONFIRM = "tools/confirm_mutant5.sh" if "mut5" in SRC else "tools/confirm_mutant4.sh" if "mut4" in SRC else "tools/confirm_mutant3.sh" if "mut3" in SRC else "tools/confirm_mutant.sh"
RUNNER = "tools/mutant_wt.py" if ("mut3" in SRC or "mut4" in SRC or "mut5" in SRC) else "tools/mutant.py"
sys.path.insert(0, ROOT)
import importlib
TABLE = importlib.import_module(TABMOD).TABLE

head = subprocess.run(["git", "-C", "/repo", "rev-parse", "--short", "HEAD"], capture_output=True, text=True).stdout.strip()
for sid, m in TABLE.items():
    pid, x = sid.split("-")
    out = os.path.join(SRC, pid + ".out")
    if not os.path.isdir(out):
        continue
    dst = os.path.join(ROOT, "seeded", sid)
    os.makedirs(dst, exist_ok=True)
    diff = os.path.join(out, x + ".rebased.diff")
    if not os.path.exists(diff):
        diff = os.path.join(out, x + ".diff")
    shutil.copy(diff, os.path.join(dst, "patch.diff"))
    shutil.copy(os.path.join(out, "demo_%s.sh" % x), os.path.join(dst, "demo.sh"))
    extras = list(m.get("extra_files", []))
    if os.path.isdir(os.path.join(out, "demo_%s" % x)):
        extras.append("demo_%s" % x)
    for extra in extras:
        p = os.path.join(out, extra)
        if os.path.isdir(p):
            shutil.copytree(p, os.path.join(dst, extra), dirs_exist_ok=True, ignore=shutil.ignore_patterns("target", "*.log", "Cargo.lock"))
        elif os.path.exists(p):
            shutil.copy(p, os.path.join(dst, extra))
    if os.path.exists(os.path.join(out, "notes.md")):
        shutil.copy(os.path.join(out, "notes.md"), os.path.join(dst, "author-notes.md"))
    conf = ""
    cp = os.path.join(out, "confirm_%s.txt" % x)
    if os.path.exists(cp):
        conf = [l.strip() for l in open(cp) if l.startswith(("RESULT", "tests:", "== apply"))]
    meta = {
        "id": sid,
        "property": pid,
        "summary": m["summary"],
        "needs_to_manifest": m["needs"],
        "written_by": "independent sub-agent given only the property text and a scratch worktree of /repo",
        "confirmed": {
            "how": (CONFIRM + " %s %s: scratch worktree " + SRC + "/%s at /repo HEAD, git apply, cargo build --offline, "
                    "cargo test --workspace --no-fail-fast --offline, demo with the change, git checkout, demo without") % (pid, x, pid),
            "repo_head": head,
            "result": conf,
            "pinned_tests": "same 7 environment-dependent failures as the pristine tree, all others pass",
            "rebased_by_hand": os.path.basename(diff).endswith("rebased.diff"),
        },
        "checks": {
            "run": RUNNER + " seeded/%s/patch.diff %s quick" % (sid, ",".join(m["caught_by"] or [pid])),
            "caught_by": m["caught_by"],
            "classes": m.get("classes", []),
            "first_attempt": m["first"],
            "strengthening": m.get("strengthening", ""),
        },
    }
    json.dump(meta, open(os.path.join(dst, "meta.json"), "w"), indent=1)
print("kept", len(TABLE))
