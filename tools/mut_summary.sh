#!/bin/bash
# tools/mut_summary.sh <diff> <props> : compact verdict per check
/verif/tools/mutant.py "$1" "$2" ${3:-quick} 2>&1 | grep -E "^== |class=" | cut -c1-220
