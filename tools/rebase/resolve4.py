import re,sys
p,id_=sys.argv[1],sys.argv[2]
s=open(p).read()
# drop conflict markers outside the region first (import lines)
def fix_imports(m):
    ours=m.group(1).splitlines(); theirs=m.group(2).splitlines()
    if not all(l.startswith("use ") for l in ours+theirs if l.strip()): return m.group(0)
    out=list(ours)
    for l in theirs:
        if l.startswith("use std::fs::{"):
            a=[x.strip() for x in re.search(r"\{(.*)\}",[o for o in ours if o.startswith("use std::fs::{")][0]).group(1).split(",")]
            b=[x.strip() for x in re.search(r"\{(.*)\}",l).group(1).split(",")]
            extra=[x for x in b if x not in a]
            if extra:
                i=[k for k,o in enumerate(out) if o.startswith("use std::fs::{")][0]
                out[i]=out[i].replace("};", ", "+", ".join(extra)+"};")
            continue
        if l not in out: out.append(l)
    return "\n".join(out)+"\n"
s=re.sub(r"<<<<<<< ours\n(.*?)=======\n(.*?)>>>>>>> theirs\n",fix_imports,s,flags=re.S)
a=s.index("        let metadata = infd.metadata()?;\n")+len("        let metadata = infd.metadata()?;\n")
b=s.index("        allocate_file(&outfd, metadata.len())?;")
EXISTED='''
        // The destination may be the source itself under another name
        // (./file, a symlink or a hard link to it); creating it would
        // truncate the source.
        let existed = match to.symlink_metadata() {
            Ok(_) => true,
            Err(e) if e.kind() == ErrorKind::NotFound => false,
            Err(e) => return Err(e.into()),
        };
'''
SAME='''        if existed && to.try_exists()? && is_same_file(from, to)? {
            return Err(XcpError::DestinationExists("Source and destination are the same file.", to.to_path_buf()).into());
        }

'''
NOCLOB='''        let outfd = if config.no_clobber {
            match OpenOptions::new().write(true).create_new(true).open(to) {
                Ok(f) => f,
                Err(e) if e.kind() == ErrorKind::AlreadyExists => {
                    return Err(XcpError::DestinationExists("Destination file exists and --no-clobber is set.", to.to_path_buf()).into());
                }
                Err(e) => return Err(e.into()),
            }
        } else {
'''
BACKUP='''            let mut fresh = !existed;
            if needs_backup(to, config)? {
                let backup = get_backup_path(to)?;
                info!("Backup: Rename {:?} to {:?}", to, backup);
                fs::rename(to, backup)?;
                fresh = true;
            }
'''
def create(existing_expr="File::create(to)?", fresh_expr="OpenOptions::new().write(true).create_new(true).open(to)?"):
    return '''            if fresh {
                %s
            } else {
                %s
            }
        };
''' % (fresh_expr, existing_expr)
if id_=="C01-b":
    body=EXISTED+SAME+NOCLOB+BACKUP+"            // allocate_file() sets the final length of the destination, so\n            // there is no need to also truncate it on open.\n"+create("OpenOptions::new().write(true).create(true).truncate(false).open(to)?")
elif id_=="C11-b":
    body=EXISTED+SAME+NOCLOB+BACKUP+create("OpenOptions::new().write(true).create(true).open(to)?")
elif id_=="C10-d":
    body=EXISTED+SAME+NOCLOB+BACKUP+"            // A new file starts out private to us; the real permissions are\n            // applied by finalise().\n"+create("OpenOptions::new().write(true).create(true).truncate(true).mode(0o600).open(to)?","OpenOptions::new().write(true).create_new(true).mode(0o600).open(to)?")
elif id_=="C15-h":
    body=EXISTED+SAME+NOCLOB+BACKUP+"            // A clone replaces the destination's contents anyway and\n            // allocate_file() sets the length: only truncate when no clone\n            // will be attempted.\n"+create("OpenOptions::new().write(true).create(true).truncate(config.reflink == Reflink::Never).open(to)?")
elif id_=="C03-b":
    body=EXISTED+'''        // Compare against the descriptor we hold rather than re-resolving
        // the source path, which may have been replaced since we opened it.
        if let Ok(dmeta) = to.metadata() {
            if dmeta.ino() == metadata.ino() && dmeta.dev() == metadata.dev() {
                return Err(XcpError::DestinationExists("Source and destination are the same file.", to.to_path_buf()).into());
            }
        }

'''+NOCLOB+BACKUP+create()
elif id_=="C03-e":
    body=EXISTED.replace("the source itself under another name\n        // (./file, a symlink or a hard link to it); creating it would\n        // truncate the source.","a source under another name; creating\n        // it would truncate that source.")+'''        if existed && to.try_exists()? && is_source(&to.metadata()?) {
            return Err(XcpError::DestinationExists("Source and destination are the same file.", to.to_path_buf()).into());
        }

'''+NOCLOB+BACKUP+create()
elif id_=="C16-g":
    body=EXISTED+'''        if existed && is_same_file(from, to)? {
            return Err(XcpError::DestinationExists("Source and destination are the same file.", to.to_path_buf()).into());
        }

'''+NOCLOB+BACKUP+create()
elif id_=="C09-f":
    body=EXISTED+SAME+NOCLOB+'''            let mut fresh = !existed;
            if needs_backup(to, config)? {
                // rename() silently replaces its target, so a backup made
                // after we listed the directory (by a worker copying a
                // second source of the same name, or by another xcp) would
                // be lost. Claim the old file under a private name, which
                // only one contender can win, then link it to the first
                // free backup name: link() fails rather than replaces.
                let mut claimed = to.to_path_buf().into_os_string();
                claimed.push(format!(".~xcp{}~", process::id()));
                fs::rename(to, &claimed)?;
                loop {
                    let backup = get_backup_path(to)?;
                    info!("Backup: Rename {:?} to {:?}", to, backup);
                    match fs::hard_link(&claimed, &backup) {
                        Ok(()) => break,
                        Err(e) if e.kind() == ErrorKind::AlreadyExists => continue,
                        Err(e) => {
                            fs::rename(&claimed, to)?;
                            return Err(e.into());
                        }
                    }
                }
                fs::remove_file(&claimed)?;
                fresh = true;
            }
'''+create()
elif id_=="C08-b":
    body=EXISTED+SAME+'''        let mut fresh = !existed;
        if needs_backup(to, config)? {
            let backup = get_backup_path(to)?;
            info!("Backup: Rename {:?} to {:?}", to, backup);
            fs::rename(to, backup)?;
            fresh = true;
        }

        // With --no-clobber the file has to be created by us. O_EXCL
        // makes the existence test and the creation a single step, so
        // nothing can appear between a probe and the open; it also
        // refuses a dangling symlink and never blocks on a FIFO.
        let outfd = if config.no_clobber {
            OpenOptions::new()
                .write(true)
                .create_new(true)
                .open(to)
                .map_err(|e| match e.kind() {
                    ErrorKind::AlreadyExists => XcpError::DestinationExists(NO_CLOBBER_MSG, to.to_path_buf()).into(),
                    _ => anyhow::Error::from(e),
                })?
        } else if fresh {
            OpenOptions::new().write(true).create_new(true).open(to)?
        } else {
            File::create(to)?
        };
'''
elif id_=="C03-d":
    body=EXISTED.replace("        // The destination may be the source itself under another name\n        // (./file, a symlink or a hard link to it); creating it would\n        // truncate the source.\n","        // Probe the destination once. An existing entry is either\n        // moved aside as a backup, after which we create a brand new\n        // file and nothing can be clobbered, or it is truncated in\n        // place. In the latter case it may be the source itself under\n        // another name (./file, a symlink or a hard link to it);\n        // creating it would truncate the source.\n")+'''        let mut fresh = !existed;
        if existed && to.try_exists()? {
            if !config.no_clobber && needs_backup(to, config)? {
                let backup = get_backup_path(to)?;
                info!("Backup: Rename {:?} to {:?}", to, backup);
                fs::rename(to, backup)?;
                fresh = true;
            } else if is_same_file(from, to)? {
                return Err(XcpError::DestinationExists("Source and destination are the same file.", to.to_path_buf()).into());
            }
        }

'''+NOCLOB+create()
elif id_=="C16-b":
    body='''
        let existed = match to.symlink_metadata() {
            Ok(_) => true,
            Err(e) if e.kind() == ErrorKind::NotFound => false,
            Err(e) => return Err(e.into()),
        };
        let mut fresh = !existed;
        if !config.no_clobber && needs_backup(to, config)? {
            let backup = get_backup_path(to)?;
            info!("Backup: Rename {:?} to {:?}", to, backup);
            fs::rename(to, backup)?;
            fresh = true;
        }

        // The destination may be the source itself under another name
        // (./file, a symlink or a hard link to it); creating it would
        // truncate the source. Check immediately before the create so
        // that nothing can slip in between the two.
        if to.try_exists()? && is_same_file(from, to)? {
            return Err(XcpError::DestinationExists("Source and destination are the same file.", to.to_path_buf()).into());
        }

'''+NOCLOB+create()
s=s[:a]+body+s[b:]
open(p,'w').write(s); print(s.count("<<<<<<<"))
