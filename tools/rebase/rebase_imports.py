import re,sys
p=sys.argv[1]; s=open(p).read()
def fix(m):
    ours=m.group(1).splitlines(); theirs=m.group(2).splitlines()
    if not all(l.startswith("use ") for l in ours+theirs if l.strip()):
        return m.group(0)
    out=list(ours)
    for l in theirs:
        if l.startswith("use std::fs::{"):
            # merge the brace lists
            a=set(x.strip() for x in re.search(r"\{(.*)\}",[o for o in ours if o.startswith("use std::fs::{")][0]).group(1).split(","))
            b=[x.strip() for x in re.search(r"\{(.*)\}",l).group(1).split(",")]
            extra=[x for x in b if x not in a]
            if extra:
                i=[k for k,o in enumerate(out) if o.startswith("use std::fs::{")][0]
                out[i]=out[i].replace("};", ", "+", ".join(extra)+"};")
            continue
        if l not in out: out.append(l)
    return "\n".join(out)+"\n"
s2=re.sub(r"<<<<<<< ours\n(.*?)=======\n(.*?)>>>>>>> theirs\n",fix,s,flags=re.S)
open(p,'w').write(s2)
print(s2.count("<<<<<<<"))
