#!/usr/bin/env python3
"""Run checks against a seeded change WITHOUT touching /repo: the patch is applied in a scratch git worktree of /repo's HEAD,
the checks are pointed at it (VERIF_REPO) with a private build cache (VERIF_CACHE, seeded from /verif/.cache so the build is
incremental), and worktree + cache are removed afterwards.  Several instances may run concurrently.
   tools/mutant_wt.py <patch.diff> C01,C05 [quick|thorough]
Evidence and replay files of these runs go to the scratch directory (kept only when --keep), never to /verif/evidence."""
import os, subprocess, sys, tempfile, shutil
args = [a for a in sys.argv[1:] if not a.startswith("--")]
keep = "--keep" in sys.argv
patch = os.path.abspath(args[0])
props = args[1].split(",")
tier = args[2] if len(args) > 2 else "quick"
ROOT = os.path.dirname(os.path.dirname(os.path.abspath(__file__)))
scratch = tempfile.mkdtemp(prefix="mutwt.", dir="/dev/shm")
wt = os.path.join(scratch, "repo")
cache = os.path.join(scratch, "cache")
rc = 0
try:
    subprocess.run(["git", "-C", "/repo", "worktree", "add", "-q", "--detach", wt, "HEAD"], check=True)
    r = subprocess.run(["git", "-C", wt, "apply", patch])
    if r.returncode != 0:
        sys.exit("patch does not apply")
    os.makedirs(cache)
    src = os.path.join(ROOT, ".cache")
    for d in ("xcp-target", "sim-target", "probe-target", "fallback"):
        if os.path.isdir(os.path.join(src, d)):
            subprocess.run(["cp", "-a", os.path.join(src, d), os.path.join(cache, d)])
    env = dict(os.environ, VERIF_REPO=wt, VERIF_CACHE=cache, VERIF_EVIDENCE_DIR=os.path.join(scratch, "evidence"),
               VERIF_REPLAY_DIR=os.path.join(scratch, "replays"), VERIF_SCRATCH=os.path.join(scratch, "sb"))
    # cargo keys incremental state on mtimes: make sure patched files are newer than the copied cache
    for l in subprocess.run(["git", "-C", wt, "diff", "--name-only"], capture_output=True, text=True).stdout.split():
        os.utime(os.path.join(wt, l))
    for p in props:
        pr = subprocess.run([os.path.join(ROOT, "check"), p, "--tier", tier], env=env, capture_output=True, text=True)
        lines = [l for l in pr.stdout.splitlines() if l.startswith(("VIOLATION", "  class", "HARNESS", "KNOWN"))]
        last = pr.stdout.splitlines()[-1] if pr.stdout.strip() else pr.stderr[-300:]
        print("== %s rc=%d  %s" % (p, pr.returncode, last))
        for l in lines[:12]:
            print("   " + l[:260])
        sys.stdout.flush()
        for f in os.listdir(cache):
            if f.startswith("nondet-"):
                shutil.copy(os.path.join(cache, f), "/dev/shm/" + f + "." + os.path.basename(scratch))
                print("   nondeterminism details kept in /dev/shm/" + f + "." + os.path.basename(scratch))
finally:
    subprocess.run(["git", "-C", "/repo", "worktree", "remove", "--force", wt])
    if keep:
        shutil.rmtree(cache, ignore_errors=True)
        print("scratch (replays):", scratch)
    else:
        shutil.rmtree(scratch, ignore_errors=True)
